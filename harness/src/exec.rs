//! Scenario interpreter: executes a scenario (JSON) on the real crate under the controlled runtime

use crate::runtime::{Sched, Snapshot};
use desync::scheduler::{scheduler, JobQueue, QueueResumer, SchedulerFuture, TrySyncError};
use desync::Desync;
use futures::future::BoxFuture;
use futures::prelude::*;
use futures::task::{self, ArcWake, Context, Poll};
use serde_json::Value;
use std::collections::HashMap;
use std::panic::{catch_unwind, AssertUnwindSafe};
use std::pin::Pin;
use std::sync::atomic::{AtomicBool, Ordering};
use std::sync::{Arc, Mutex};

/// The value protected by each Desync of a scenario
pub struct Payload { pub obj: usize, sched: &'static Sched }

impl Drop for Payload {
    fn drop(&mut self) { self.sched.obs("freed", self.obj as i64, 0); }
}

#[derive(Clone, Debug, Default)]
pub struct OpSpec {
    pub id:     i64,
    pub k:      String,
    pub o:      usize,
    pub g:      usize,
    pub aw:     Vec<i64>,
    pub body:   Vec<OpSpec>,
    pub panic:  bool,
    pub block:  usize,
    pub f:      i64,
    pub then:   String,
    pub n:      usize,
    pub p:      usize,
}

#[derive(Clone, Debug)]
pub struct ThreadSpec { pub name: String, pub ops: Vec<OpSpec> }

#[derive(Clone, Debug)]
pub struct Scenario {
    pub name:    String,
    pub objects: usize,
    pub pool:    usize,
    pub gates:   usize,
    pub pipes:   usize,
    pub threads: Vec<ThreadSpec>,
}

fn parse_op(v: &Value) -> OpSpec {
    OpSpec {
        id:     v["id"].as_i64().unwrap_or(0),
        k:      v["k"].as_str().unwrap_or("").to_string(),
        o:      v["o"].as_u64().unwrap_or(0) as usize,
        g:      v["g"].as_u64().unwrap_or(0) as usize,
        aw:     v["aw"].as_array().map(|a| a.iter().map(|g| g.as_i64().unwrap_or(0)).collect()).unwrap_or_else(|| vec![]),
        body:   v["body"].as_array().map(|a| a.iter().map(parse_op).collect()).unwrap_or_else(|| vec![]),
        panic:  v["panic"].as_bool().unwrap_or(false),
        block:  v["block"].as_u64().unwrap_or(0) as usize,
        f:      v["f"].as_i64().unwrap_or(0),
        then:   v["then"].as_str().unwrap_or("keep").to_string(),
        n:      v["n"].as_u64().unwrap_or(0) as usize,
        p:      v["p"].as_u64().unwrap_or(0) as usize,
    }
}

impl Scenario {
    pub fn parse(v: &Value) -> Scenario {
        Scenario {
            name:    v["name"].as_str().unwrap_or("scenario").to_string(),
            objects: v["objects"].as_u64().unwrap_or(1) as usize,
            pool:    v["pool"].as_u64().unwrap_or(0) as usize,
            gates:   v["gates"].as_u64().unwrap_or(0) as usize,
            pipes:   v["pipes"].as_u64().unwrap_or(0) as usize,
            threads: v["threads"].as_array().map(|a| a.iter().map(|t| ThreadSpec {
                name: t["name"].as_str().unwrap_or("c").to_string(),
                ops:  t["ops"].as_array().map(|a| a.iter().map(parse_op).collect()).unwrap_or_else(|| vec![])
            }).collect()).unwrap_or_else(|| vec![]),
        }
    }
}

/// An external one-shot event
struct Gate { fired: bool, waker: Option<task::Waker>, thread_waiters: Vec<usize>, history: Vec<task::Waker> }

pub struct Ctx {
    pub sched:   &'static Sched,
    objects:     Vec<Mutex<Option<Arc<Desync<Payload>>>>>,
    queues:      Vec<Arc<JobQueue>>,
    gates:       Vec<Mutex<Gate>>,
    pipes:       Vec<PipeSlot>,
}

pub fn token(id: i64) -> i64 { id * 7 + 3 }

/// The input side of a pipe: a stream whose items are supplied by `send` operations
struct InputShared { items: std::collections::VecDeque<i64>, closed: bool, waker: Option<task::Waker> }
struct InputStream { shared: Arc<Mutex<InputShared>>, sched: &'static Sched, pipe: usize }

impl Stream for InputStream {
    type Item = i64;
    fn poll_next(self: Pin<&mut Self>, context: &mut Context) -> Poll<Option<i64>> {
        // Like a channel receiver: look, register the waker, look again (an item or the end of the stream can arrive in between,
        // in which case the result is returned with the waker still registered)
        {
            let mut shared = self.shared.lock().unwrap();
            if let Some(item) = shared.items.pop_front() { return Poll::Ready(Some(item)); }
            if shared.closed { self.sched.obs("in_end", self.pipe as i64, 0); return Poll::Ready(None); }
        }
        self.sched.yield_now("inpoll");
        let mut shared = self.shared.lock().unwrap();
        shared.waker = Some(context.waker().clone());
        if let Some(item) = shared.items.pop_front() { Poll::Ready(Some(item)) }
        else if shared.closed { self.sched.obs("in_end", self.pipe as i64, 0); Poll::Ready(None) }
        else { Poll::Pending }
    }
}

impl Drop for InputStream { fn drop(&mut self) { self.sched.obs("in_dropped", self.pipe as i64, 0); } }

/// Dropped together with the processing closure of a pipe
struct ClosureFlag { sched: &'static Sched, pipe: usize }
impl Drop for ClosureFlag { fn drop(&mut self) { self.sched.obs("closure_dropped", self.pipe as i64, 0); } }

pub struct PipeSlot { input: Arc<Mutex<InputShared>>, stream: Mutex<Option<desync::PipeStream<i64>>> }

/// Future that completes once a gate has fired
struct GateFuture { ctx: Arc<Ctx>, gate: usize }

impl Future for GateFuture {
    type Output = ();
    fn poll(self: Pin<&mut Self>, context: &mut Context) -> Poll<()> {
        let mut gate = self.ctx.gates[self.gate - 1].lock().unwrap();
        if gate.fired { Poll::Ready(()) } else { gate.waker = Some(context.waker().clone()); gate.history.push(context.waker().clone()); Poll::Pending }
    }
}

/// Yields to the scheduler before every poll of the inner future
struct YieldThenPoll<F> { sched: &'static Sched, inner: F }
impl<F: Future + Unpin> Future for YieldThenPoll<F> {
    type Output = F::Output;
    fn poll(mut self: Pin<&mut Self>, context: &mut Context) -> Poll<F::Output> {
        self.sched.yield_now("resumed");
        Pin::new(&mut self.inner).poll(context)
    }
}

/// Emits `end` when dropped unless the operation already ended
struct EndGuard { ctx: Arc<Ctx>, id: i64, ended: bool }
impl Drop for EndGuard { fn drop(&mut self) { if !self.ended { self.ctx.sched.obs("end", self.id, 1); } } }

struct TaskWaker { sched: &'static Sched, tid: usize }
impl ArcWake for TaskWaker {
    fn wake_by_ref(arc_self: &Arc<Self>) { desync::verif::Runtime::unpark(&arc_self.sched, arc_self.tid); }
}

struct FlagWaker { sched: &'static Sched, flag: Arc<AtomicBool>, fut: i64 }
impl ArcWake for FlagWaker {
    fn wake_by_ref(arc_self: &Arc<Self>) { arc_self.flag.store(true, Ordering::SeqCst); arc_self.sched.obs("woken", arc_self.fut, 0); }
}

/// What a stored future resolves to, as a result code: 0 = expected value, 3 = unexpected value, 4 = cancelled
type CodeFuture = Pin<Box<dyn Future<Output = i64> + Send>>;

enum Slot {
    Sched(SchedulerFuture<i64>, i64),
    Code(CodeFuture, Option<Arc<Desync<Payload>>>),
    Resumer(QueueResumer),
    SuspendFut(Pin<Box<dyn Future<Output = Option<QueueResumer>> + Send>>),
}

#[derive(Default)]
pub struct Slots { slots: HashMap<i64, Slot>, flags: HashMap<i64, Arc<AtomicBool>> }

impl Ctx {
    fn obj(&self, o: usize) -> Arc<Desync<Payload>> {
        self.objects[o - 1].lock().unwrap().as_ref().map(|d| Arc::clone(d)).expect("object already dropped")
    }

    /// Runs a future to completion on the current (controlled) thread
    pub fn block_on<F: Future>(&self, future: F) -> F::Output {
        let tid         = self.sched.current_tid().expect("controlled thread");
        let waker       = task::waker(Arc::new(TaskWaker { sched: self.sched, tid }));
        let mut context = Context::from_waker(&waker);
        let mut future  = Box::pin(future);

        loop {
            match future.as_mut().poll(&mut context) {
                Poll::Ready(value)  => return value,
                Poll::Pending       => self.sched.park_task()
            }
        }
    }

    /// Blocks the current thread until the gate has fired
    fn block_thread_on(&self, gate: usize) {
        let tid = self.sched.current_tid().expect("controlled thread");
        loop {
            {
                let mut gate = self.gates[gate - 1].lock().unwrap();
                if gate.fired { return; }
                if !gate.thread_waiters.contains(&tid) { gate.thread_waiters.push(tid); }
            }
            self.sched.park_task();
        }
    }

    fn fire(&self, gate: usize) {
        let (waker, threads) = {
            let mut gate = self.gates[gate - 1].lock().unwrap();
            gate.fired = true;
            (gate.waker.take(), std::mem::take(&mut gate.thread_waiters))
        };
        for tid in threads { desync::verif::Runtime::unpark(&self.sched, tid); }
        if let Some(waker) = waker { waker.wake(); }
    }
}

/// The body shared by all closure kinds: start, yield, nested ops, optional blocking, optional panic, end
fn run_body(ctx: &Arc<Ctx>, op: &OpSpec) -> i64 {
    ctx.sched.obs("start", op.id, 0);
    ctx.sched.yield_now("body");
    if !op.body.is_empty() {
        let mut slots = Slots::default();
        for nested in op.body.iter() { exec_op(ctx, nested, &mut slots); }
    }
    if op.block != 0 { ctx.block_thread_on(op.block); }
    if op.panic { ctx.sched.obs("panic", op.id, 0); panic!("scenario panic in op {}", op.id); }
    ctx.sched.obs("end", op.id, 0);
    token(op.id)
}

/// The future body shared by all future kinds
fn future_body(ctx: Arc<Ctx>, op: OpSpec) -> BoxFuture<'static, i64> {
    async move {
        ctx.sched.obs("start", op.id, 0);
        let mut guard = EndGuard { ctx: Arc::clone(&ctx), id: op.id, ended: false };
        ctx.sched.yield_now("body");
        let mut slots = Slots::default();
        for nested in op.body.iter() { exec_op(&ctx, nested, &mut slots); }
        for item in op.aw.iter() {
            if *item > 0 {
                GateFuture { ctx: Arc::clone(&ctx), gate: *item as usize }.await;
                ctx.sched.yield_now("resumed");
            } else {
                // a real nested await of a future created by one of the nested operations (polled with the outer context's waker)
                let fut_id = -*item;
                let code = match slots.slots.remove(&fut_id) {
                    Some(Slot::Sched(f, expected))  => YieldThenPoll { sched: ctx.sched, inner: f }.map(move |r| code_of(r, expected)).await,
                    Some(Slot::Code(f, keep))       => { let code = YieldThenPoll { sched: ctx.sched, inner: f }.await; std::mem::drop(keep); code }
                    _                               => panic!("nested await: no future {}", fut_id)
                };
                ctx.sched.obs("resolved", fut_id, code);
            }
        }
        if op.panic { ctx.sched.obs("panic", op.id, 0); guard.ended = true; panic!("scenario panic in op {}", op.id); }
        guard.ended = true;
        ctx.sched.obs("end", op.id, 0);
        token(op.id)
    }.boxed()
}

fn code_of(result: Result<i64, futures::channel::oneshot::Canceled>, expected: i64) -> i64 {
    match result { Ok(value) => if value == expected { 0 } else { 3 }, Err(_) => 4 }
}

/// Executes one operation; emits call/ret observables around it. Returns the result code.
pub fn exec_op(ctx: &Arc<Ctx>, op: &OpSpec, slots: &mut Slots) -> i64 {
    ctx.sched.obs("call", op.id, 0);
    let result = catch_unwind(AssertUnwindSafe(|| exec_inner(ctx, op, slots)));
    let code = match result { Ok(code) => code, Err(_) => { crate::runtime::note_caught(); 2 } };
    ctx.sched.yield_now("ret");
    ctx.sched.obs("ret", op.id, code);
    code
}

fn exec_inner(ctx: &Arc<Ctx>, op: &OpSpec, slots: &mut Slots) -> i64 {
    match op.k.as_str() {
        "desync" => {
            let (ctx2, op2) = (Arc::clone(ctx), op.clone());
            ctx.obj(op.o).desync(move |_payload| { run_body(&ctx2, &op2); });
            0
        }

        "sync" => {
            let value = ctx.obj(op.o).sync(|_payload| run_body(ctx, op));
            if value == token(op.id) { 0 } else { 3 }
        }

        "try_sync" => {
            match ctx.obj(op.o).try_sync(|_payload| run_body(ctx, op)) {
                Ok(value)                   => if value == token(op.id) { 0 } else { 3 },
                Err(TrySyncError::Busy)     => 1
            }
        }

        "fdesync" | "after" => {
            let (ctx2, op2) = (Arc::clone(ctx), op.clone());
            let future = if op.k == "after" {
                // after(): wait for the gate, then run a plain closure
                let gate = GateFuture { ctx: Arc::clone(ctx), gate: op.g };
                let boxed: SchedulerFutureOrCode = SchedulerFutureOrCode::Code(Box::pin(ctx.obj(op.o).after(gate, move |_payload, _| run_body(&ctx2, &op2)).map(|r| r)));
                boxed
            } else {
                SchedulerFutureOrCode::Sched(ctx.obj(op.o).future_desync(move |_payload| future_body(ctx2, op2)))
            };
            let expected = token(op.id);

            match (op.then.as_str(), future) {
                ("await", SchedulerFutureOrCode::Sched(f))  => { let code = code_of(ctx.block_on(f), expected); ctx.sched.obs("resolved", op.id, code); code }
                ("await", SchedulerFutureOrCode::Code(f))   => { let code = code_of(ctx.block_on(f), expected); ctx.sched.obs("resolved", op.id, code); code }
                ("sync", SchedulerFutureOrCode::Sched(f))   => { let code = code_of(f.sync(), expected); ctx.sched.obs("resolved", op.id, code); code }
                ("detach", SchedulerFutureOrCode::Sched(f)) => { f.detach(); 0 }
                ("drop", _)                                 => 0,
                (_, SchedulerFutureOrCode::Sched(f))        => { slots.slots.insert(op.id, Slot::Sched(f, expected)); 0 }
                (_, SchedulerFutureOrCode::Code(f))         => { slots.slots.insert(op.id, Slot::Code(Box::pin(f.map(move |r| code_of(r, expected))), None)); 0 }
            }
        }

        "fsync" => {
            let object      = ctx.obj(op.o);
            let (ctx2, op2) = (Arc::clone(ctx), op.clone());
            let expected    = token(op.id);
            // The returned future borrows the Desync: keep the Arc alive next to it
            let borrowed: &'static Desync<Payload> = unsafe { std::mem::transmute::<&Desync<Payload>, &'static Desync<Payload>>(&*object) };
            let future      = borrowed.future_sync(move |_payload| future_body(ctx2, op2));
            let future: CodeFuture = Box::pin(future.map(move |r| code_of(r, expected)));

            match op.then.as_str() {
                "await" => { let code = ctx.block_on(future); std::mem::drop(object); ctx.sched.obs("resolved", op.id, code); code }
                "drop"  => { ctx.sched.obs("dropped", op.id, 0); std::mem::drop(future); std::mem::drop(object); 0 }
                _       => { slots.slots.insert(op.id, Slot::Code(future, Some(object))); 0 }
            }
        }

        "await" => {
            match slots.slots.remove(&op.f) {
                Some(Slot::Sched(f, expected))  => { let code = code_of(ctx.block_on(f), expected); ctx.sched.obs("resolved", op.f, code); code }
                Some(Slot::Code(f, keep))       => { let code = ctx.block_on(f); std::mem::drop(keep); ctx.sched.obs("resolved", op.f, code); code }
                Some(Slot::SuspendFut(f))       => {
                    match ctx.block_on(f) {
                        Some(resumer)   => { ctx.sched.obs("resolved", op.f, 0); slots.slots.insert(op.f, Slot::Resumer(resumer)); 0 }
                        None            => { ctx.sched.obs("resolved", op.f, 4); 4 }
                    }
                }
                _                               => panic!("await: no future {}", op.f)
            }
        }

        "wait_sync" => {
            match slots.slots.remove(&op.f) {
                Some(Slot::Sched(f, expected))  => { let code = code_of(f.sync(), expected); ctx.sched.obs("resolved", op.f, code); code }
                _                               => panic!("wait_sync: no scheduler future {}", op.f)
            }
        }

        "poll" => {
            // A single poll with a waker that only records that it was called
            let flag        = Arc::clone(slots.flags.entry(op.f).or_insert_with(|| Arc::new(AtomicBool::new(false))));
            let waker       = task::waker(Arc::new(FlagWaker { sched: ctx.sched, flag, fut: op.f }));
            let mut context = Context::from_waker(&waker);

            // (the future of suspend() leaves the resumer behind when it resolves)
            if let Some(Slot::SuspendFut(f)) = slots.slots.get_mut(&op.f) {
                return match f.as_mut().poll(&mut context) {
                    Poll::Ready(Some(resumer))  => { ctx.sched.obs("resolved", op.f, 0); slots.slots.insert(op.f, Slot::Resumer(resumer)); 0 }
                    Poll::Ready(None)           => { ctx.sched.obs("resolved", op.f, 4); slots.slots.remove(&op.f); 4 }
                    Poll::Pending               => 5
                };
            }
            let (code, done) = match slots.slots.get_mut(&op.f) {
                Some(Slot::Sched(f, expected))  => match f.poll_unpin(&mut context) { Poll::Ready(r) => (code_of(r, *expected), true), Poll::Pending => (5, false) },
                Some(Slot::Code(f, _))          => match f.as_mut().poll(&mut context) { Poll::Ready(code) => (code, true), Poll::Pending => (5, false) },
                _                               => panic!("poll: no future {}", op.f)
            };
            if done { slots.slots.remove(&op.f); ctx.sched.obs("resolved", op.f, code); }
            code
        }

        "dropf" | "detach" => {
            // The drop is the cancellation request: it is recorded before the future is destroyed
            // (a suspend future that has already resolved left the resumer in the slot: dropping that is drop_resumer)
            if let Some(Slot::Resumer(_)) = slots.slots.get(&op.f) { ctx.sched.obs("resume", op.f, 0); } else { ctx.sched.obs("dropped", op.f, 0); }
            match slots.slots.remove(&op.f) {
                Some(Slot::Sched(f, _)) => { if op.k == "detach" { f.detach() } else { std::mem::drop(f) } }
                Some(Slot::Code(f, keep)) => { std::mem::drop(f); std::mem::drop(keep); }
                Some(other)             => { std::mem::drop(other); }
                None                    => { }
            }
            0
        }

        // phase barrier: passed by all threads waiting at it once every other thread is finished or blocked (the pool is idle)
        "barrier" => { ctx.sched.yield_now("barrier"); 0 }

        "fire" => { ctx.sched.obs("fire", op.g as i64, 0); ctx.fire(op.g); 0 }

        // the adversary allowed by the Future contract: every waker ever handed to this event source is invoked (the event does not fire)
        "spur" => {
            let wakers: Vec<task::Waker> = ctx.gates[op.g - 1].lock().unwrap().history.clone();
            for waker in wakers { waker.wake(); }
            0
        }

        "drop_obj" => {
            let object = ctx.objects[op.o - 1].lock().unwrap().take();
            if op.then == "unwinding" {
                // The owner is dropped by a thread that is unwinding from a panic (resume_unwind: no panic hook, thread::panicking() is true in Drop)
                let _ = catch_unwind(AssertUnwindSafe(move || { let _owner = object; std::panic::resume_unwind(Box::new("unwinding drop")); }));
            } else {
                std::mem::drop(object);
            }
            0
        }

        "suspend" => {
            let future = scheduler().suspend(ctx.obj(op.o).verif_queue());
            let future: Pin<Box<dyn Future<Output = Option<QueueResumer>> + Send>> = Box::pin(future.map(|r| r.ok()));
            match op.then.as_str() {
                "await" => {
                    match ctx.block_on(future) {
                        Some(resumer)   => { ctx.sched.obs("resolved", op.id, 0); slots.slots.insert(op.id, Slot::Resumer(resumer)); 0 }
                        None            => { ctx.sched.obs("resolved", op.id, 4); 4 }
                    }
                }
                _       => { slots.slots.insert(op.id, Slot::SuspendFut(future)); 0 }
            }
        }

        "resume" | "drop_resumer" => {
            match slots.slots.remove(&op.f) {
                Some(Slot::Resumer(resumer))    => { ctx.sched.obs("resume", op.f, 0); if op.k == "resume" { resumer.resume() } else { std::mem::drop(resumer) } 0 }
                _                               => panic!("resume: no resumer {}", op.f)
            }
        }

        "pipe_in" | "pipe" => {
            // processing function: records start/end of each item (with a yield in between), optionally awaits a gate, produces item * 10
            let slot        = &ctx.pipes[op.p - 1];
            let input       = InputStream { shared: Arc::clone(&slot.input), sched: ctx.sched, pipe: op.p };
            let flag        = ClosureFlag { sched: ctx.sched, pipe: op.p };
            let (ctx2, pipe, gate) = (Arc::clone(ctx), op.p as i64, op.g);
            let process     = move |_payload: &mut Payload, item: i64| {
                let _flag = &flag;
                let ctx3 = Arc::clone(&ctx2);
                async move {
                    ctx3.sched.obs("proc_start", pipe, item);
                    ctx3.sched.yield_now("body");
                    if gate != 0 { GateFuture { ctx: Arc::clone(&ctx3), gate }.await; ctx3.sched.yield_now("resumed"); }
                    ctx3.sched.obs("proc_end", pipe, item);
                    item * 10
                }.boxed()
            };
            if op.k == "pipe" {
                let mut process = process;
                let stream = desync::pipe(ctx.obj(op.o), input, move |payload, item| process(payload, item));
                *slot.stream.lock().unwrap() = Some(stream);
            } else {
                let mut process = process;
                desync::pipe_in(ctx.obj(op.o), input, move |payload, item| { let fut = process(payload, item); async move { fut.await; }.boxed() });
            }
            0
        }

        "send" | "close_input" => {
            let waker = {
                let mut shared = ctx.pipes[op.p - 1].input.lock().unwrap();
                if op.k == "send" { shared.items.push_back(op.n as i64); ctx.sched.obs("sent", op.p as i64, op.n as i64); }
                else { shared.closed = true; ctx.sched.obs("in_closed", op.p as i64, 0); }
                shared.waker.take()
            };
            if let Some(waker) = waker { waker.wake(); }
            0
        }

        "next" => {
            let mut stream = ctx.pipes[op.p - 1].stream.lock().unwrap().take().expect("no pipe stream");
            let item = ctx.block_on(stream.next());
            match item { Some(value) => ctx.sched.obs("out", op.p as i64, value), None => ctx.sched.obs("out_end", op.p as i64, 0) }
            *ctx.pipes[op.p - 1].stream.lock().unwrap() = Some(stream);
            0
        }

        "drop_stream" => {
            let stream = ctx.pipes[op.p - 1].stream.lock().unwrap().take();
            ctx.sched.obs("stream_dropped", op.p as i64, 0);
            std::mem::drop(stream);
            0
        }

        "set_depth" => {
            // (the stream is taken out of its slot for the call: no harness lock is held across a scheduling point; a scenario must not
            // use one stream from two threads at once, which no program could do either)
            let stream = ctx.pipes[op.p - 1].stream.lock().unwrap().take();
            if let Some(mut stream) = stream {
                stream.set_backpressure_depth(op.n);
                *ctx.pipes[op.p - 1].stream.lock().unwrap() = Some(stream);
            }
            0
        }

        "block_on" => { ctx.block_thread_on(op.g); 0 }

        "set_max" => {
            if op.then == "real" {
                // the real call: counted from the call for the monitors (it goes on to wake and spawn threads under the new maximum)
                ctx.sched.obs("setmax", op.n as i64, 0);
                scheduler().set_max_threads(op.n);
            } else {
                scheduler().verif_set_max_threads(op.n);
                ctx.sched.obs("setmax", op.n as i64, 0);
            }
            0
        }
        "despawn" => { scheduler().despawn_threads_if_overloaded(); 0 }
        "spawn_thread" => { scheduler().spawn_thread(); 0 }
        "nop"     => 0,

        other => panic!("unknown op kind {}", other)
    }
}

enum SchedulerFutureOrCode {
    Sched(SchedulerFuture<i64>),
    Code(Pin<Box<dyn Future<Output = Result<i64, futures::channel::oneshot::Canceled>> + Send>>),
}

/// Sets up the objects of a scenario and its caller threads (parked at `start`)
pub fn setup(sched: &'static Sched, scenario: &Scenario) -> Arc<Ctx> {
    scheduler().verif_set_max_threads(scenario.pool);

    let objects: Vec<Arc<Desync<Payload>>> = (1..=scenario.objects).map(|obj| Arc::new(Desync::new(Payload { obj, sched }))).collect();
    let queues: Vec<Arc<JobQueue>> = objects.iter().map(|d| Arc::clone(d.verif_queue())).collect();
    let gates = (0..scenario.gates).map(|_| Mutex::new(Gate { fired: false, waker: None, thread_waiters: vec![], history: vec![] })).collect();

    let pipes = (0..scenario.pipes).map(|_| PipeSlot { input: Arc::new(Mutex::new(InputShared { items: Default::default(), closed: false, waker: None })), stream: Mutex::new(None) }).collect();
    let ctx = Arc::new(Ctx { sched, objects: objects.into_iter().map(|d| Mutex::new(Some(d))).collect(), queues, gates, pipes });

    let snap_queues = ctx.queues.clone();
    sched.set_snapshot(Some(Arc::new(move || {
        let queues = snap_queues.iter().map(|q| q.verif_snapshot().unwrap_or_else(|| ("Locked".to_string(), 0, 0))).collect();
        let (schedule, threads, max) = scheduler().verif_snapshot();
        let schedule = schedule.iter().map(|q| snap_queues.iter().position(|s| Arc::ptr_eq(s, q)).map(|p| p + 1).unwrap_or(0)).collect();
        Snapshot { queues, schedule, threads, max }
    })));

    for thread in scenario.threads.iter() {
        let (ctx2, ops) = (Arc::clone(&ctx), thread.ops.clone());
        sched.start_thread(thread.name.clone(), Box::new(move || {
            let mut slots = Slots::default();
            ctx2.sched.yield_now("begin");
            for op in ops.iter() { exec_op(&ctx2, op, &mut slots); }
            // Futures that were never consumed are dropped when the thread ends
            std::mem::drop(slots);
        }));
    }

    ctx
}

/// Drops the scenario's objects and brings the global scheduler back to its pristine state. Returns false if that was not possible.
pub fn teardown(sched: &'static Sched, ctx: Arc<Ctx>) -> bool {
    sched.set_snapshot(None);
    sched.set_free_run();

    let ctx2 = Arc::clone(&ctx);
    sched.start_thread("td".to_string(), Box::new(move || {
        // Shut the pipes down, then drop whatever objects are still alive
        for slot in ctx2.pipes.iter() {
            let stream = slot.stream.lock().unwrap().take();
            std::mem::drop(stream);
            let waker = { let mut shared = slot.input.lock().unwrap(); shared.closed = true; shared.waker.take() };
            if let Some(waker) = waker { waker.wake(); }
        }
        for object in ctx2.objects.iter() { let object = object.lock().unwrap().take(); std::mem::drop(object); }

        // Flush stale schedule entries with one pool thread, then despawn every pool thread
        scheduler().verif_set_max_threads(1);
        let flush = Desync::new(());
        flush.desync(|_| { });
        flush.sync(|_| { });
        std::mem::drop(flush);
        scheduler().verif_set_max_threads(0);
        scheduler().despawn_threads_if_overloaded();
    }));
    let _ = sched.run_to_quiescence();
    std::mem::drop(ctx);

    let all_finished = sched.thread_states().iter().all(|(_, finished, _, _)| *finished);
    let (schedule, threads, _) = scheduler().verif_snapshot();
    all_finished && schedule.is_empty() && threads.is_empty()
}
