//! dverif: runs scenarios on the real desync crate under the controlled runtime and records traces
//!
//! dverif run --scenario FILE --driver random|pct|dfs|script --seed N --runs N --out FILE [--pb N] [--state FILE] [--script t1,t2,...]
//!
//! Exit codes: 0 = all requested runs done, 3 = stopped after a run that could not be torn down cleanly (re-invoke with the same
//! --state file to continue), 2 = usage or internal error.

mod runtime;
mod exec;

use runtime::{Driver, Sched, StepRecord, Tid};
use exec::Scenario;
use serde_json::{json, Value};
use std::io::Write;

struct Rng(u64);
impl Rng {
    fn new(seed: u64) -> Rng { Rng(seed.wrapping_mul(0x9E3779B97F4A7C15) ^ 0xD1B54A32D192ED03 | 1) }
    fn next(&mut self) -> u64 { self.0 ^= self.0 << 13; self.0 ^= self.0 >> 7; self.0 ^= self.0 << 17; self.0.wrapping_mul(0x2545F4914F6CDD1D) }
    fn below(&mut self, n: usize) -> usize { (self.next() % (n as u64)) as usize }
}

/// Uniform random choice among the enabled threads
struct RandomDriver { rng: Rng }
impl Driver for RandomDriver {
    fn choose(&mut self, _step: usize, enabled: &[Tid], _prev: Option<Tid>, _names: &dyn Fn(Tid) -> String) -> Tid { enabled[self.rng.below(enabled.len())] }
}

/// PCT: random priorities, `depth` priority change points
struct PctDriver { rng: Rng, prio: std::collections::HashMap<Tid, i64>, change: Vec<usize>, low: i64 }
impl Driver for PctDriver {
    fn choose(&mut self, step: usize, enabled: &[Tid], _prev: Option<Tid>, _names: &dyn Fn(Tid) -> String) -> Tid {
        for t in enabled { if !self.prio.contains_key(t) { let p = 1000 + self.rng.below(1000) as i64; self.prio.insert(*t, p); } }
        let best = *enabled.iter().max_by_key(|t| self.prio[*t]).unwrap();
        if self.change.contains(&step) { self.low -= 1; self.prio.insert(best, self.low); return *enabled.iter().max_by_key(|t| self.prio[*t]).unwrap(); }
        best
    }
}

/// Follows a script of thread names; afterwards continues without preemption (lowest thread when the previous one is not enabled)
struct ScriptDriver { script: Vec<String>, diverged: std::sync::Arc<std::sync::Mutex<Option<usize>>>, fallback: Option<Rng> }
impl Driver for ScriptDriver {
    fn choose(&mut self, step: usize, enabled: &[Tid], prev: Option<Tid>, names: &dyn Fn(Tid) -> String) -> Tid {
        if step < self.script.len() {
            if let Some(t) = enabled.iter().find(|t| names(**t) == self.script[step]) { return *t; }
            let mut diverged = self.diverged.lock().unwrap();
            if diverged.is_none() { *diverged = Some(step); }
        }
        if let Some(rng) = self.fallback.as_mut() { return enabled[rng.below(enabled.len())]; }
        match prev { Some(prev) if enabled.contains(&prev) => prev, _ => enabled[0] }
    }
}

fn step_json(step: &StepRecord) -> Value {
    json!({
        "t": step.thread, "op": step.op, "cls": step.class, "obj": step.obj, "loc": step.loc,
        "obs": step.obs.iter().map(|o| json!([o.kind, o.a, o.b])).collect::<Vec<_>>(),
        "q": step.snap.queues.iter().map(|(s, n, w)| json!([s, n, w])).collect::<Vec<_>>(),
        "sch": step.snap.schedule, "thr": step.snap.threads, "max": step.snap.max,
        "en": step.enabled, "locks": step.locks, "fin": step.finished, "waited": step.waited
    })
}

struct RunResult { trace: Vec<StepRecord>, clean: bool, overrun: bool, pristine: bool, threads: Vec<(String, bool, bool, String)>, diverged: Option<usize> }

fn run_once(sched: &'static Sched, scenario: &Scenario, driver: Box<dyn Driver>, diverged: Option<std::sync::Arc<std::sync::Mutex<Option<usize>>>>, max_steps: usize) -> RunResult {
    sched.begin_run(driver, max_steps);
    let ctx = exec::setup(sched, scenario);
    let (trace, overrun) = sched.run_to_quiescence();
    let threads = sched.thread_states();
    // Clean: every caller thread finished and every other thread is waiting for work
    let clean = !overrun && threads.iter().all(|(name, finished, _, pending)| *finished || (name.starts_with('p') && pending.starts_with("recv")));
    let pristine = if clean { exec::teardown(sched, ctx) } else { std::mem::forget(ctx); false };
    RunResult { trace, clean, overrun, pristine, threads, diverged: diverged.and_then(|d| *d.lock().unwrap()) }
}

fn arg<'a>(args: &'a [String], name: &str) -> Option<&'a str> {
    args.iter().position(|a| a == name).and_then(|p| args.get(p + 1)).map(|s| s.as_str())
}

fn write_run(out: &mut dyn Write, index: u64, scenario: &Scenario, driver: &str, seed: u64, result: &RunResult) {
    let sched_names: Vec<&str> = result.trace.iter().map(|s| s.thread.as_str()).collect();
    writeln!(out, "{}", json!({"run": index, "scenario": scenario.name, "driver": driver, "seed": seed, "sched": sched_names})).unwrap();
    for step in result.trace.iter() { writeln!(out, "{}", step_json(step)).unwrap(); }
    writeln!(out, "{}", json!({
        "end": index, "clean": result.clean, "overrun": result.overrun, "diverged": result.diverged,
        "threads": result.threads.iter().map(|(n, f, p, pend)| json!([n, f, p, pend])).collect::<Vec<_>>()
    })).unwrap();
}

/// State of the preemption-bounded depth-first enumeration
#[derive(Default)]
struct Dfs { stack: Vec<Vec<String>>, started: bool, free_prefix: usize }

impl Dfs {
    /// Adds the unexplored alternatives of a finished run that followed `prefix` and then the no-preemption policy
    fn expand(&mut self, prefix_len: usize, trace: &[StepRecord], bound: usize) {
        let chosen: Vec<&str> = trace.iter().map(|s| s.thread.as_str()).collect();
        // preemptions in chosen[0..i]
        let mut preempt = vec![0usize; chosen.len() + 1];
        for i in 0..chosen.len() {
            let is_preempt = i > 0 && chosen[i] != chosen[i - 1] && trace[i].enabled.iter().any(|e| e == chosen[i - 1]);
            preempt[i + 1] = preempt[i] + if is_preempt { 1 } else { 0 };
        }
        // preemptions inside a given (free) prefix do not count against the bound
        let free = preempt[self.free_prefix.min(chosen.len())];
        for i in (prefix_len..chosen.len()).rev() {
            for alt in trace[i].enabled.iter() {
                if alt == chosen[i] { continue; }
                let is_preempt = i > 0 && alt != chosen[i - 1] && trace[i].enabled.iter().any(|e| e == chosen[i - 1]);
                if preempt[i] - free.min(preempt[i]) + if is_preempt { 1 } else { 0 } > bound { continue; }
                let mut prefix: Vec<String> = chosen[..i].iter().map(|s| s.to_string()).collect();
                prefix.push(alt.clone());
                self.stack.push(prefix);
            }
        }
    }
}

fn main() {
    let args: Vec<String> = std::env::args().collect();
    if args.len() < 2 || args[1] != "run" { eprintln!("usage: dverif run --scenario FILE --driver D --seed N --runs N --out FILE"); std::process::exit(2); }

    let scenario_file = arg(&args, "--scenario").expect("--scenario");
    let scenario_json: Value = serde_json::from_str(&std::fs::read_to_string(scenario_file).expect("read scenario")).expect("parse scenario");
    let scenario    = Scenario::parse(&scenario_json);
    let driver      = arg(&args, "--driver").unwrap_or("random").to_string();
    let seed: u64   = arg(&args, "--seed").and_then(|s| s.parse().ok()).unwrap_or(1);
    let runs: u64   = arg(&args, "--runs").and_then(|s| s.parse().ok()).unwrap_or(100);
    let bound: usize = arg(&args, "--pb").and_then(|s| s.parse().ok()).unwrap_or(2);
    let max_steps: usize = arg(&args, "--max-steps").and_then(|s| s.parse().ok()).unwrap_or(2000);
    let out_file    = arg(&args, "--out").expect("--out");
    let state_file  = arg(&args, "--state").map(|s| s.to_string());
    let script: Vec<String> = arg(&args, "--script").map(|s| s.split(',').filter(|s| !s.is_empty()).map(|s| s.to_string()).collect()).unwrap_or_else(|| vec![]);
    let quiet       = args.iter().any(|a| a == "--quiet");
    let scripts: Vec<Vec<String>> = arg(&args, "--scripts-file").map(|f| {
        let v: Value = serde_json::from_str(&std::fs::read_to_string(f).expect("read scripts")).expect("parse scripts");
        v.as_array().map(|a| a.iter().map(|s| s.as_array().unwrap().iter().map(|t| t.as_str().unwrap().to_string()).collect()).collect()).unwrap_or_else(|| vec![])
    }).unwrap_or_else(|| vec![]);

    // Silence panic messages of scenario panics (they are data)
    if quiet { std::panic::set_hook(Box::new(|_| { runtime::note_panic(); })); }
    else { let default = std::panic::take_hook(); std::panic::set_hook(Box::new(move |info| { runtime::note_panic(); default(info); })); }

    let sched: &'static Sched = Box::leak(Box::new(Sched::new()));
    desync::verif::install(Box::new(sched));

    // Warm up the global state of the crate (scheduler, reference chute) outside of any run
    {
        use futures::prelude::*;
        let warm = std::sync::Arc::new(desync::Desync::new(()));
        let stream = desync::pipe(std::sync::Arc::clone(&warm), futures::stream::iter(vec![1]), |_, item: i32| future::ready(item).boxed());
        std::mem::drop(stream);
        warm.sync(|_| { });
        desync::scheduler::scheduler().verif_set_max_threads(0);
        desync::scheduler::scheduler().despawn_threads_if_overloaded();
    }

    // Resume state
    let mut next_run: u64 = 0;
    let mut dfs = Dfs::default();
    if let Some(state_file) = state_file.as_ref() {
        if let Ok(text) = std::fs::read_to_string(state_file) {
            let state: Value = serde_json::from_str(&text).expect("state");
            next_run = state["next_run"].as_u64().unwrap_or(0);
            dfs.started = state["dfs_started"].as_bool().unwrap_or(false);
            dfs.free_prefix = state["dfs_free_prefix"].as_u64().unwrap_or(0) as usize;
            dfs.stack = state["dfs_stack"].as_array().map(|a| a.iter().map(|p| p.as_array().unwrap().iter().map(|s| s.as_str().unwrap().to_string()).collect()).collect()).unwrap_or_else(|| vec![]);
        }
    }

    let mut out = std::io::BufWriter::new(std::fs::OpenOptions::new().create(true).append(true).open(out_file).expect("open out"));
    let mut exit_code = 0;

    while next_run < runs {
        let diverged = std::sync::Arc::new(std::sync::Mutex::new(None));
        let run_seed = seed.wrapping_mul(1_000_003).wrapping_add(next_run);
        let mut prefix_len = 0;

        let drv: Box<dyn Driver> = match driver.as_str() {
            "random" => Box::new(RandomDriver { rng: Rng::new(run_seed) }),
            "pct"    => {
                let mut rng = Rng::new(run_seed);
                let depth = 1 + rng.below(3);
                let change = (0..depth).map(|_| rng.below(80)).collect();
                Box::new(PctDriver { rng, prio: std::collections::HashMap::new(), change, low: 0 })
            }
            "script" => Box::new(ScriptDriver { script: script.clone(), diverged: diverged.clone(), fallback: None }),
            "scripts" => {
                if next_run as usize >= scripts.len() { break; }
                Box::new(ScriptDriver { script: scripts[next_run as usize].clone(), diverged: diverged.clone(), fallback: None })
            }
            "script-random" => Box::new(ScriptDriver { script: script.clone(), diverged: diverged.clone(), fallback: Some(Rng::new(run_seed)) }),
            "dfs"    => {
                let prefix = if !dfs.started { dfs.started = true; dfs.free_prefix = script.len(); script.clone() } else {
                    match dfs.stack.pop() { Some(prefix) => prefix, None => break }
                };
                prefix_len = prefix.len().max(dfs.free_prefix.min(prefix.len()));
                Box::new(ScriptDriver { script: prefix, diverged: diverged.clone(), fallback: None })
            }
            other => { eprintln!("unknown driver {}", other); std::process::exit(2); }
        };

        let result = run_once(sched, &scenario, drv, Some(diverged), max_steps);
        write_run(&mut out, next_run, &scenario, &driver, run_seed, &result);
        if driver == "dfs" { dfs.expand(prefix_len, &result.trace, bound); }
        next_run += 1;

        if driver == "script" { if !result.pristine { exit_code = 0; } break; }

        if !result.pristine {
            // The process state can no longer be trusted for another run: save the enumeration state and ask to be restarted
            exit_code = 3;
            break;
        }
    }

    out.flush().unwrap();
    if driver == "dfs" && dfs.stack.is_empty() && dfs.started && exit_code == 0 { writeln!(out, "{}", json!({"dfs_exhausted": true, "runs": next_run})).unwrap(); out.flush().unwrap(); }
    if let Some(state_file) = state_file.as_ref() {
        let state = json!({"next_run": next_run, "dfs_started": dfs.started, "dfs_stack": dfs.stack, "dfs_free_prefix": dfs.free_prefix});
        std::fs::write(state_file, state.to_string()).expect("write state");
    }
    if exit_code == 3 && driver == "dfs" && dfs.stack.is_empty() { exit_code = 0; }
    std::process::exit(exit_code);
}
