//! Controlled runtime: every thread that touches the crate is a real OS thread, but exactly one runs at a time.
//! A thread announces the ordering-relevant operation it is about to perform (`point`) and sleeps until the
//! driver picks it; only threads whose announced operation is enabled can be picked.

use desync::verif::{Op, Runtime};
use std::cell::Cell;
use std::collections::HashMap;
use std::panic::Location;
use std::sync::{Arc, Condvar, Mutex, MutexGuard};

pub type Tid = usize;

/// An observable event emitted by the harness closures or by the runtime itself
#[derive(Clone, Debug)]
pub struct Obs { pub kind: &'static str, pub a: i64, pub b: i64 }

/// Post-state projection taken after every step
#[derive(Clone, Debug, Default)]
pub struct Snapshot {
    /// per object: (state, queued jobs, blocked waiters)
    pub queues:   Vec<(String, usize, usize)>,
    /// object indices in the schedule (0 = a queue that is not one of the scenario's objects)
    pub schedule: Vec<usize>,
    /// one char per pool thread in the scheduler's thread list
    pub threads:  String,
    pub max:      usize,
}

#[derive(Clone, Debug)]
pub struct StepRecord {
    pub thread:  String,
    pub op:      &'static str,
    pub class:   &'static str,
    pub obj:     String,
    pub loc:     String,
    pub obs:     Vec<Obs>,
    pub snap:    Snapshot,
    pub enabled: Vec<String>,
    pub locks:   Vec<String>,
    pub finished: bool,
    /// the announced operation was not enabled when it was announced: the thread really had to wait
    pub waited: bool,
}

struct ThreadInfo {
    name:     String,
    run:      u64,
    pending:  Option<(Op, &'static Location<'static>)>,
    waited:   bool,
    finished: bool,
    panicked: bool,
    token:    bool,
    notified: bool,
    /// Barrier generation this thread is waiting for (valid while its pending operation is the barrier yield)
    bar_gen:  u64,
    wake:     Arc<Condvar>,
}

pub trait Driver: Send {
    /// Picks one of `enabled` (thread ids); `prev` is the thread that performed the previous step
    fn choose(&mut self, step: usize, enabled: &[Tid], prev: Option<Tid>, names: &dyn Fn(Tid) -> String) -> Tid;
}

struct Inner {
    run:          u64,
    threads:      Vec<ThreadInfo>,
    current:      Option<Tid>,
    /// thread that is waiting for a freshly spawned thread to reach its first announcement
    spawner:      Option<Tid>,
    holder:       HashMap<usize, Tid>,
    mutex_name:   HashMap<usize, (String, &'static str)>,
    class_count:  HashMap<&'static str, usize>,
    cond_waiters: HashMap<usize, Vec<Tid>>,
    chans:        HashMap<usize, (usize, usize)>,
    driver:       Option<Box<dyn Driver>>,
    recording:    bool,
    trace:        Vec<StepRecord>,
    cur_obs:      Vec<Obs>,
    cur_locks:    Vec<String>,
    cur_step:     Option<(Tid, Op, &'static Location<'static>, Vec<String>, bool)>,
    steps:        usize,
    max_steps:    usize,
    quiescent:    bool,
    overrun:      bool,
    snapshot:     Option<Arc<dyn Fn() -> Snapshot + Send + Sync>>,
    pool_count:   usize,
    barrier_gen:  u64,
    /// per thread: the outermost mutex held and the inner mutexes taken so far inside that critical section
    nested_seen:  HashMap<Tid, (usize, Vec<usize>)>,
    last:         Option<Tid>,
    free_run:     bool,
}

pub struct Sched { inner: Mutex<Inner>, main_cv: Condvar }

thread_local! { static TID: Cell<Option<(u64, Tid)>> = Cell::new(None); }
thread_local! { static PANICS: Cell<i64> = Cell::new(0); }

/// Called by the panic hook: a panic started on this thread
pub fn note_panic() { PANICS.with(|p| p.set(p.get() + 1)); }
/// Called by the harness when it has caught a panic of an operation (the thread survives it)
pub fn note_caught() { PANICS.with(|p| p.set(p.get() - 1)); }

/// Shortens a type name to a lock class
pub fn classify(type_name: &'static str, loc: &Location) -> &'static str {
    let file = loc.file();
    if type_name.contains("JobQueueCore") { "core" }
    else if type_name.contains("PipeStreamCore") { "pcore" }
    else if type_name.contains("SchedulerFutureResult") { "fres" }
    else if type_name.contains("DrainWakerState") { "dw" }
    else if type_name.contains("VecDeque<") && type_name.contains("JobQueue") { "sched" }
    else if type_name.contains("SchedulerThread") { "threads" }
    else if type_name == "usize" { "maxt" }
    else if type_name == "bool" { if file.ends_with("core.rs") || source_line_mentions(loc, "is_busy") { "busy" } else { "ready" } }
    else if type_name.contains("Waker, core::task::wake::Waker") { "dbl" }
    else if file.ends_with("pipe.rs") {
        if type_name.contains("PipeContext") { "pwaker" } else { "pipe" }
    }
    else if file.ends_with("desync_scheduler.rs") { "sres" }
    else { "other" }
}

/// True if the source line of a creation site mentions `what` (tells the busy flag made by Scheduler::spawn_thread from the ready flag
/// of sync_background, which are both a Mutex<bool> created in desync_scheduler.rs)
fn source_line_mentions(loc: &Location, what: &str) -> bool {
    std::fs::read_to_string(loc.file()).ok()
        .and_then(|text| text.lines().nth(loc.line() as usize - 1).map(|line| line.contains(what)))
        .unwrap_or(false)
}

fn short_loc(loc: &Location) -> String {
    let file = loc.file();
    let file = file.rsplit('/').next().unwrap_or(file);
    format!("{}:{}", file, loc.line())
}

fn op_name(op: &Op) -> &'static str {
    match op { Op::Lock(_) => "lock", Op::CondWait(_, _) => "wait", Op::Park => "park", Op::Recv(_) => "recv", Op::Join(_) => "join", Op::Yield(tag) => tag, Op::TryLock(_) => "trylock" }
}

impl Inner {
    fn enabled_op(&self, t: &ThreadInfo, op: &Op) -> bool {
        match op {
            Op::Lock(m)         => !self.holder.contains_key(m),
            Op::CondWait(_, m)  => t.notified && !self.holder.contains_key(m),
            Op::Park            => t.token,
            Op::Recv(ch)        => self.chans.get(ch).map(|(items, senders)| *items > 0 || *senders == 0).unwrap_or(true),
            Op::Join(other)     => self.threads.get(*other).map(|t| t.finished).unwrap_or(true),
            // A phase barrier: passed together by all threads waiting at it, once every other thread is finished or blocked
            Op::Yield("barrier") => t.bar_gen < self.barrier_gen || self.threads.iter()
                .filter(|o| o.run == self.run && !o.finished && !std::ptr::eq(*o, t))
                .all(|o| match o.pending.as_ref() {
                    Some((Op::Yield("barrier"), _)) => o.bar_gen == t.bar_gen,
                    Some((op, _))                   => !self.enabled_op(o, op),
                    None                            => false
                }),
            Op::Yield(_)        => true,
            Op::TryLock(_)      => true,
        }
    }

    fn enabled(&self) -> Vec<Tid> {
        self.threads.iter().enumerate()
            .filter(|(_, t)| t.run == self.run && !t.finished)
            .filter(|(_, t)| t.pending.as_ref().map(|(op, _)| self.enabled_op(t, op)).unwrap_or(false))
            .map(|(i, _)| i)
            .collect()
    }

    fn name_of_mutex(&mut self, id: usize) -> (String, &'static str) {
        self.mutex_name.get(&id).cloned().unwrap_or_else(|| (format!("m{}", id), "other"))
    }

    /// Closes the record of the step that the current thread has just finished
    fn end_step(&mut self, finished: bool) {
        if let Some((tid, op, loc, enabled, waited)) = self.cur_step.take() {
            if self.recording {
                let (obj, class) = match op {
                    Op::Lock(m)         => self.name_of_mutex(m),
                    Op::CondWait(_, m)  => self.name_of_mutex(m),
                    _                   => (String::new(), "")
                };
                let snap = self.snapshot.as_ref().map(|s| s()).unwrap_or_default();
                let record = StepRecord {
                    thread: self.threads[tid].name.clone(), op: op_name(&op), class, obj, loc: short_loc(loc),
                    obs: std::mem::take(&mut self.cur_obs), snap, enabled, locks: std::mem::take(&mut self.cur_locks), finished, waited
                };
                self.trace.push(record);
            } else {
                self.cur_obs.clear();
                self.cur_locks.clear();
            }
        }
    }

    /// Picks the next thread to run (or declares quiescence)
    fn choose(&mut self) {
        let enabled = self.enabled();

        if enabled.is_empty() || self.steps >= self.max_steps {
            if !enabled.is_empty() { self.overrun = true; }
            self.current   = None;
            self.quiescent = true;
            return;
        }

        let threads = &self.threads;
        let names   = |t: Tid| threads[t].name.clone();
        let chosen  = if self.free_run { enabled[0] } else {
            let step = self.steps;
            let prev = self.last;
            self.driver.as_mut().map(|d| d.choose(step, &enabled, prev, &names)).unwrap_or(enabled[0])
        };
        debug_assert!(enabled.contains(&chosen));

        self.steps += 1;
        self.last   = Some(chosen);
        self.current = Some(chosen);

        // The chosen thread performs its pending operation
        let (op, loc) = self.threads[chosen].pending.take().expect("pending op");
        match op {
            Op::Park            => { self.threads[chosen].token = false; }
            Op::CondWait(_, _)  => { self.threads[chosen].notified = false; }
            Op::Yield("barrier") => { if self.threads[chosen].bar_gen == self.barrier_gen { self.barrier_gen += 1; } }
            _                   => { }
        }
        let enabled_names = enabled.iter().map(|t| self.threads[*t].name.clone()).collect();
        let waited = self.threads[chosen].waited;
        self.cur_step = Some((chosen, op, loc, enabled_names, waited));
    }
}

impl Sched {
    pub fn new() -> Sched {
        Sched {
            inner: Mutex::new(Inner {
                run: 0, barrier_gen: 1, nested_seen: HashMap::new(), threads: vec![], current: None, spawner: None, holder: HashMap::new(), mutex_name: HashMap::new(), class_count: HashMap::new(),
                cond_waiters: HashMap::new(), chans: HashMap::new(), driver: None, recording: false, trace: vec![], cur_obs: vec![], cur_locks: vec![],
                cur_step: None, steps: 0, max_steps: 5000, quiescent: false, overrun: false, snapshot: None, pool_count: 0, last: None, free_run: false,
            }),
            main_cv: Condvar::new()
        }
    }

    fn me(&self) -> Tid { TID.with(|t| t.get().expect("controlled thread").1) }

    /// Hands control over: the calling thread has recorded its pending op (or finished); pick the next thread and wait for our turn
    fn switch<'a>(&'a self, mut inner: MutexGuard<'a, Inner>, me: Option<Tid>) -> MutexGuard<'a, Inner> {
        if let Some(spawner) = inner.spawner.take() {
            // We are a freshly spawned thread that has reached its first announcement: give control back to the spawner
            inner.current = Some(spawner);
            inner.threads[spawner].wake.notify_all();
        } else {
            inner.choose();
            match inner.current {
                Some(next)  => { if Some(next) != me { inner.threads[next].wake.notify_all(); } }
                None        => { self.main_cv.notify_all(); }
            }
        }

        if let Some(me) = me {
            let wake = Arc::clone(&inner.threads[me].wake);
            while inner.current != Some(me) { inner = wake.wait(inner).unwrap(); }
        }
        inner
    }

    /// Starts a new run: resets per-run bookkeeping
    pub fn begin_run(&self, driver: Box<dyn Driver>, max_steps: usize) {
        let mut inner = self.inner.lock().unwrap();
        inner.run += 1;
        inner.current = None; inner.spawner = None;
        inner.holder.clear(); inner.cond_waiters.clear();
        inner.class_count.clear();
        inner.driver = Some(driver);
        inner.recording = true; inner.trace.clear(); inner.cur_obs.clear(); inner.cur_locks.clear(); inner.cur_step = None;
        inner.steps = 0; inner.max_steps = max_steps; inner.quiescent = false; inner.overrun = false; inner.pool_count = 0; inner.last = None; inner.free_run = false;
    }

    pub fn set_snapshot(&self, snapshot: Option<Arc<dyn Fn() -> Snapshot + Send + Sync>>) { self.inner.lock().unwrap().snapshot = snapshot; }

    /// Creates a controlled thread that is parked at a `start` announcement
    pub fn start_thread(&'static self, name: String, f: Box<dyn FnOnce() + Send>) -> Tid {
        let mut inner = self.inner.lock().unwrap();
        self.create_thread(&mut inner, name, f, true)
    }

    fn create_thread(&'static self, inner: &mut Inner, name: String, f: Box<dyn FnOnce() + Send>, at_start: bool) -> Tid {
        let id   = inner.threads.len();
        let run  = inner.run;
        let wake = Arc::new(Condvar::new());
        static START: &'static str = "start";
        inner.threads.push(ThreadInfo {
            name, run, pending: if at_start { Some((Op::Yield(START), Location::caller())) } else { None }, finished: false, panicked: false, token: false, notified: false, waited: false, bar_gen: 0, wake: Arc::clone(&wake)
        });

        std::thread::Builder::new().name(format!("dverif-{}", id)).spawn(move || {
            TID.with(|t| t.set(Some((run, id))));
            {
                let mut inner = self.inner.lock().unwrap();
                while inner.current != Some(id) { inner = wake.wait(inner).unwrap(); }
            }

            let result = std::panic::catch_unwind(std::panic::AssertUnwindSafe(f));

            let mut inner = self.inner.lock().unwrap();
            if inner.run != run { return; }
            inner.threads[id].finished = true;
            let died = result.is_err() || PANICS.with(|p| p.get()) > 0;
            inner.threads[id].panicked = died;
            inner.cur_obs.push(Obs { kind: "exit", a: id as i64, b: if died { 1 } else { 0 } });
            if inner.spawner.is_none() { inner.end_step(true); }
            TID.with(|t| t.set(None));
            let _inner = self.switch(inner, None);
        }).expect("spawn");

        id
    }

    /// Runs until quiescence; returns the trace
    pub fn run_to_quiescence(&self) -> (Vec<StepRecord>, bool) {
        let mut inner = self.inner.lock().unwrap();
        inner.quiescent = false;
        inner.choose();
        match inner.current {
            Some(next)  => inner.threads[next].wake.notify_all(),
            None        => { }
        }
        while !inner.quiescent { inner = self.main_cv.wait(inner).unwrap(); }
        (std::mem::take(&mut inner.trace), inner.overrun)
    }

    /// Switches to free-running, non-recording mode (used for teardown)
    pub fn set_free_run(&self) {
        let mut inner = self.inner.lock().unwrap();
        inner.free_run = true; inner.recording = false; inner.max_steps = usize::MAX; inner.steps = 0;
    }

    /// (name, finished, pending op description) of every thread of the current run
    pub fn thread_states(&self) -> Vec<(String, bool, bool, String)> {
        let inner = self.inner.lock().unwrap();
        inner.threads.iter().filter(|t| t.run == inner.run)
            .map(|t| (t.name.clone(), t.finished, t.panicked, t.pending.as_ref().map(|(op, loc)| format!("{}@{}", op_name(op), short_loc(loc))).unwrap_or_default()))
            .collect()
    }

    pub fn obs(&self, kind: &'static str, a: i64, b: i64) {
        let mut inner = self.inner.lock().unwrap();
        inner.cur_obs.push(Obs { kind, a, b });
    }

    pub fn yield_now(&self, tag: &'static str) {
        if self.controlled() { self.point(Op::Yield(tag), Location::caller()); }
    }

    /// Task-level parking for the harness's mini executor (same token as thread::park)
    pub fn park_task(&self) { self.point(Op::Park, Location::caller()); }
    pub fn current_tid(&self) -> Option<Tid> { TID.with(|t| t.get().map(|(_, id)| id)) }
    pub fn thread_name(&self, tid: Tid) -> String { self.inner.lock().unwrap().threads[tid].name.clone() }
}

impl Runtime for &'static Sched {
    fn controlled(&self) -> bool { Sched::controlled(self) }
    fn current(&self) -> usize { self.me() }
    fn point(&self, op: Op, loc: &'static Location<'static>) { Sched::point(self, op, loc) }

    fn nested_point(&self, held: &[usize], acquiring: Option<usize>, released: Option<usize>) -> bool {
        let me = self.me();
        let mut inner = self.inner.lock().unwrap();

        // An inner mutex that is taken a second time inside the same outer critical section was released in between: threads that only take
        // the inner mutex can get in there (the outer lock does not exclude them), so the re-acquisition is a scheduling point
        // (only directly under the schedule lock and outside a pool thread's scan of the schedule, which holds a busy flag: elsewhere the
        // crate calls whole scheduler functions under an outer lock, or looks at a schedule that may hold the same queue twice, and
        // every inner section is a complete read-modify-write of its own)
        let class_of = |id: &usize| inner.mutex_name.get(id).map(|(_, class)| *class).unwrap_or("other");
        let outer_is_schedule = held.last().map(|o| class_of(o) == "sched").unwrap_or(false) && !held.iter().any(|h| class_of(h) == "busy");
        if let (Some(id), Some(outer), true) = (acquiring, held.first(), outer_is_schedule) {
            let fresh = inner.nested_seen.get(&me).map(|(o, _)| o != outer).unwrap_or(true);
            if fresh { inner.nested_seen.insert(me, (*outer, vec![])); }
            let seen = &mut inner.nested_seen.get_mut(&me).unwrap().1;
            if seen.contains(&id) { return true; }
            seen.push(id);
        }

        // A mutex that other threads observe with try_lock (the pool threads' busy flags) makes the critical section visible: the
        // point after the schedule has been examined and before the busy flag is released is a scheduling point
        let class = |id: &usize| inner.mutex_name.get(id).map(|(_, class)| *class).unwrap_or("other");
        held.len() == 1 && class(&held[0]) == "busy" && released.as_ref().map(|id| class(id) == "sched").unwrap_or(false)
    }

    fn lock_is_point(&self, id: usize) -> bool {
        // Result slots of sync calls are only ever touched by one thread at a time (hand-over is ordered by other locks)
        let inner = self.inner.lock().unwrap();
        inner.mutex_name.get(&id).map(|(_, class)| *class != "sres").unwrap_or(true)
    }

    fn mutex_created(&self, id: usize, class: &'static str, loc: &'static Location<'static>) {
        let mut inner = self.inner.lock().unwrap();
        let class = classify(class, loc);
        let count = { let count = inner.class_count.entry(class).or_insert(0); *count += 1; *count };
        let name = if inner.run == 0 { format!("g_{}{}", class, count) } else { format!("{}{}", class, count) };
        inner.mutex_name.insert(id, (name, class));
    }

    fn mutex_acquired(&self, id: usize, _class: &'static str, loc: &'static Location<'static>, try_lock: bool) {
        let me = self.me();
        let observed = {
            let mut inner = self.inner.lock().unwrap();
            inner.holder.insert(id, me);
            let name = inner.name_of_mutex(id).0;
            inner.cur_locks.push(name);
            // Another thread is about to try_lock this mutex: try_lock observes whether somebody is inside a critical section, so the
            // section is not atomic for that thread. The holder stops here (holding the mutex) and the observer may be run first.
            let run = inner.run;
            !try_lock && inner.threads.iter().enumerate().any(|(i, t)| i != me && t.run == run && !t.finished
                && matches!(t.pending.as_ref(), Some((Op::TryLock(m), _)) if *m == id))
        };
        if observed { self.point(Op::Yield("holding"), loc); }
    }

    fn mutex_try_failed(&self, id: usize, _class: &'static str, _loc: &'static Location<'static>) {
        let mut inner = self.inner.lock().unwrap();
        let name = inner.name_of_mutex(id).0;
        inner.cur_locks.push(format!("!{}", name));
    }

    fn mutex_released(&self, id: usize) {
        let me = self.me();
        let mut inner = self.inner.lock().unwrap();
        inner.holder.remove(&id);
        if inner.nested_seen.get(&me).map(|(outer, _)| *outer == id).unwrap_or(false) { inner.nested_seen.remove(&me); }
    }

    fn cond_wait(&self, condvar: usize, _mutex: usize) {
        let me = self.me();
        let mut inner = self.inner.lock().unwrap();
        inner.threads[me].notified = false;
        inner.cond_waiters.entry(condvar).or_insert_with(|| vec![]).push(me);
    }

    fn cond_notify(&self, condvar: usize, all: bool) {
        let mut inner = self.inner.lock().unwrap();
        let waiters = inner.cond_waiters.entry(condvar).or_insert_with(|| vec![]);
        let woken: Vec<Tid> = if all { waiters.drain(..).collect() } else if waiters.is_empty() { vec![] } else { vec![waiters.remove(0)] };
        for t in woken { inner.threads[t].notified = true; }
    }

    fn unpark(&self, thread: usize) {
        let mut inner = self.inner.lock().unwrap();
        if thread < inner.threads.len() { inner.threads[thread].token = true; }
    }

    fn chan_changed(&self, chan: usize, items: usize, senders: usize) {
        let mut inner = self.inner.lock().unwrap();
        inner.chans.insert(chan, (items, senders));
    }

    fn spawn(&self, name: Option<String>, f: Box<dyn FnOnce() + Send>) -> usize {
        let me = self.me();
        let mut inner = self.inner.lock().unwrap();
        let is_pool = name.as_ref().map(|n| n.contains("desync jobs")).unwrap_or(false);
        let name = if is_pool { inner.pool_count += 1; format!("p{}", inner.pool_count) } else { format!("x{}", inner.threads.len()) };
        let id = self.create_thread(&mut inner, name, f, false);
        inner.cur_obs.push(Obs { kind: "spawn", a: id as i64, b: if is_pool { 1 } else { 0 } });

        // Let the new thread run up to its first announcement, then continue
        inner.spawner = Some(me);
        inner.current = Some(id);
        inner.threads[id].wake.notify_all();
        let wake = Arc::clone(&inner.threads[me].wake);
        while inner.current != Some(me) { inner = wake.wait(inner).unwrap(); }
        id
    }

    fn is_finished(&self, thread: usize) -> bool {
        let inner = self.inner.lock().unwrap();
        inner.threads.get(thread).map(|t| t.finished).unwrap_or(true)
    }
}

impl Sched {
    pub fn controlled(&self) -> bool {
        TID.with(|t| t.get()).map(|(run, _)| self.inner.lock().unwrap().run == run).unwrap_or(false)
    }

    pub fn point(&self, op: Op, loc: &'static Location<'static>) {
        let me = self.me();
        let mut inner = self.inner.lock().unwrap();
        let spawning = inner.spawner.is_some();
        if !spawning { inner.end_step(false); }
        if let Op::Yield("barrier") = op { inner.threads[me].bar_gen = inner.barrier_gen; }
        let enabled_now = { let t = &inner.threads[me]; inner.enabled_op(t, &op) };
        inner.threads[me].waited = !enabled_now;
        inner.threads[me].pending = Some((op, loc));
        let _inner = self.switch(inner, Some(me));
    }
}
