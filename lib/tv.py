"""Runs TLC: trace validation (ImplTrace), trace monitoring (ObsTrace) and model checking; parses the output."""
import time, json, os, re, subprocess, shutil, time
import scen, tracegen

JAVA_OPTS = '-Xss1g -Dtlc2.tool.queue.IStateQueue=StateDeque'


def parse_tla_set(text):
    """Parses the integer sets / tuples TLC prints for our registers into python (very small subset of TLA+ values)"""
    text = text.replace('\n', ' ')
    pos = [0]

    def ws():
        while pos[0] < len(text) and text[pos[0]] in ' \t':
            pos[0] += 1

    def val():
        ws()
        c = text[pos[0]]
        if c == '{':
            pos[0] += 1
            items = []
            ws()
            if text[pos[0]] == '}':
                pos[0] += 1
                return items
            while True:
                items.append(val())
                ws()
                if text[pos[0]] == ',':
                    pos[0] += 1
                    continue
                if text[pos[0]] == '}':
                    pos[0] += 1
                    return items
                raise ValueError(text[pos[0]:pos[0] + 20])
        if text.startswith('<<', pos[0]):
            pos[0] += 2
            items = []
            ws()
            if text.startswith('>>', pos[0]):
                pos[0] += 2
                return tuple(items)
            while True:
                items.append(val())
                ws()
                if text[pos[0]] == ',':
                    pos[0] += 1
                    continue
                if text.startswith('>>', pos[0]):
                    pos[0] += 2
                    return tuple(items)
                raise ValueError(text[pos[0]:pos[0] + 20])
        if c == '"':
            end = text.index('"', pos[0] + 1)
            s = text[pos[0] + 1:end]
            pos[0] = end + 1
            return s
        m = re.match(r'-?\d+', text[pos[0]:])
        if m:
            pos[0] += len(m.group(0))
            return int(m.group(0))
        m = re.match(r'\d+\.\.\d+', text[pos[0]:])
        raise ValueError('cannot parse at %r' % text[pos[0]:pos[0] + 30])

    # TLC prints intervals like 2..30 for contiguous sets
    text = re.sub(r'(\d+)\.\.(\d+)', lambda m: '{' + ', '.join(str(i) for i in range(int(m.group(1)), int(m.group(2)) + 1)) + '}', text)
    return val()


def run_tlc(workdir, module, workers=1, extra_env=None, timeout=600, heap='2g', more_args=None):
    env = dict(os.environ)
    env['JAVA_TOOL_OPTIONS'] = JAVA_OPTS + ' -Xmx' + heap
    if extra_env:
        env.update(extra_env)
    cmd = ['tlc', '-workers', str(workers), '-config', module + '.cfg', '-metadir', os.path.join(workdir, 'states_' + module), '-noGenerateSpecTE'] + (more_args or []) + [module + '.tla']
    t0 = time.time()
    p = subprocess.Popen(cmd, cwd=workdir, env=env, stdout=subprocess.PIPE, stderr=subprocess.STDOUT, universal_newlines=True, start_new_session=True)
    try:
        out, _ = p.communicate(timeout=timeout)
        rc = p.returncode
    except subprocess.TimeoutExpired:
        import signal
        try:
            os.killpg(p.pid, signal.SIGKILL)
        except ProcessLookupError:
            pass
        out, _ = p.communicate()
        out, rc = (out or '') + '\nTIMEOUT', 124
    shutil.rmtree(os.path.join(workdir, 'states_' + module), ignore_errors=True)
    return out, rc, time.time() - t0


def copy_specs(workdir):
    os.makedirs(workdir, exist_ok=True)
    for f in os.listdir(scen.SPEC_DIR):
        if f.endswith('.tla'):
            shutil.copy(os.path.join(scen.SPEC_DIR, f), workdir)


def snapshot_specs(target):
    """Copies the spec directory once per check so that concurrent edits of /verif/spec cannot disturb a running check"""
    copy_specs(target)
    scen.SPEC_DIR = target


def extract_print(out, key):
    """Finds the value printed as <<"KEY", value>> by PrintT"""
    m = re.search(r'<<\s*"%s",\s*(.*?)>>\s*\n(?=<<\s*"|Model checking|Error|\d+ states|$)' % key, out, re.S)
    if not m:
        return None
    return parse_tla_set(m.group(1).strip())


def validate_impl(scn, fixes, lines, workdir, name='TR', timeout=600, chunk=400):
    """Validates recorded runs against DesyncImpl in chunks of runs, each under the time limit. Runs of a chunk that ran out of time are
    reported as not validated in time (neither accepted nor drift)."""
    groups, cur = [], None
    for line in lines:
        if line.startswith('{"driver"') or ('"sched"' in line[:400] and '"run"' in line[:400] and '"t":' not in line[:40]):
            cur = [line]
            groups.append(cur)
        elif cur is not None:
            cur.append(line)
    if len(groups) <= chunk:
        res = _validate_impl_once(scn, fixes, lines, workdir, name, timeout)
        if 'error' in res and res.get('rc') == 124:
            return {'runs': {}, 'wall': res['wall'], 'records': [], 'out': '', 'labels': [], 'not_validated_in_time': len(groups)}
        return res
    total = {'runs': {}, 'wall': 0.0, 'records': [], 'out': '', 'labels': set(), 'not_validated_in_time': 0}
    t_begin = time.time()
    for c0 in range(0, len(groups), chunk):
        part = groups[c0:c0 + chunk]
        if time.time() - t_begin > 2 * timeout:
            total['not_validated_in_time'] += len(part)
            continue
        res = _validate_impl_once(scn, fixes, [l for g in part for l in g], workdir, name, timeout)
        if 'error' in res:
            if res.get('rc') == 124:
                total['not_validated_in_time'] += len(part)
                continue
            return res
        total['runs'].update(res['runs'])
        total['wall'] += res['wall']
        total['labels'] |= set(res['labels'])
    total['labels'] = sorted(total['labels'])
    return total


def _validate_impl_once(scn, fixes, lines, workdir, name='TR', timeout=600):
    """Validates recorded runs against DesyncImpl. Returns dict run -> {accepted, reached (index within run), steps, viols}"""
    copy_specs(workdir)
    tracegen.write_impl_trace(scn, fixes, workdir, name)
    recs = tracegen.convert(lines, scn.get('pipes', 0))
    trace_file = os.path.join(workdir, name + '_trace.ndjson')
    open(trace_file, 'w').write('\n'.join(json.dumps(r) for r in recs) + '\n')
    out, rc, wall = run_tlc(workdir, name, workers=1, extra_env={'TRACE': trace_file}, timeout=timeout)
    accepted = extract_print(out, 'ACCEPTED')
    reached = extract_print(out, 'REACHED')
    viols = extract_print(out, 'VIOLS')
    labels = extract_print(out, 'LABELS') or []
    if accepted is None or reached is None:
        return {'error': out[-3000:], 'rc': rc, 'wall': wall}
    accepted, reached = set(accepted), set(reached)
    result, cur, start = {}, None, 0
    for i, r in enumerate(recs, start=1):
        if r['kind'] == 'run':
            cur, start = r['run'], i
            result[cur] = {'accepted': False, 'reached': 0, 'steps': 0, 'viols': [], 'first': i + 1}
        elif r['kind'] == 'step':
            result[cur]['steps'] += 1
            if i in reached:
                result[cur]['reached'] = max(result[cur]['reached'], i - start)
        elif r['kind'] == 'end':
            if i in reached:
                result[cur]['reached'] = max(result[cur]['reached'], i - start)
            result[cur]['accepted'] = i in accepted
            result[cur]['last'] = i
    for (l, vs) in (viols or []):
        for run, info in result.items():
            if info['first'] <= l <= info.get('last', 10 ** 9):
                for v in vs:
                    if v not in info['viols']:
                        info['viols'].append(v)
    return {'runs': result, 'wall': wall, 'records': recs, 'out': out, 'labels': sorted(labels)}


def obs_projection(run_recs, try_ops=()):
    """What the monitors can see of a run: the observable events (with their thread), crate-level blocking steps, the queue states at the
    moment a try_sync is called (C09:busy-at-rest looks at them) and the final queue states"""
    key = []
    last_q = None
    for r in run_recs:
        if r['kind'] == 'step':
            if r['obs'] or (r['tb'] and r['op'] in ('wait', 'park', 'join')):
                key.append((r['t'], r['op'] if r['tb'] else '', tuple((o[0], 0 if o[0] in ('spawn', 'exit') else o[1], o[2]) for o in r['obs'])))
                if any(o[0] == 'call' and o[1] in try_ops for o in r['obs']):
                    key.append(('q', tuple((q[0], q[1], q[2]) for q in r['q'])))
            last_q = tuple((q[0], q[1]) for q in r['q'])
        elif r['kind'] == 'end':
            key.append(('end', last_q))
    return tuple(key)


def monitor_obs(scn, fixes, lines, workdir, name='OT', timeout=600, recs=None, chunk=600):
    """Monitor-only pass (no implementation model): returns dict run -> list of violated tags.
    Runs whose observable projection is identical are judged once."""
    copy_specs(workdir)
    tracegen.write_obs_trace(scn, fixes, workdir, name)
    recs = recs if recs is not None else tracegen.convert(lines, scn.get('pipes', 0))
    # split into runs and deduplicate by observable projection
    per_run, cur = [], None
    for r in recs:
        if r['kind'] == 'run':
            cur = [r]
            per_run.append(cur)
        elif cur is not None:
            cur.append(r)
    rep, members = {}, {}
    try_ops = set(i for i, r in scen.flatten(scn).items() if r['k'] == 'try_sync')
    for run in per_run:
        key = obs_projection(run, try_ops)
        if key not in rep:
            rep[key] = run
            members[key] = []
        members[key].append(run[0]['run'])
    # The distinct projections are judged in chunks, each under the time limit; when the whole pass has used twice the limit the
    # remaining projections are left unjudged (counted, reported in the evidence) instead of failing the check
    reps = list(rep.values())
    runs, outs, wall, unjudged, t_begin = {}, [], 0.0, 0, time.time()
    for c0 in range(0, len(reps), chunk):
        part = reps[c0:c0 + chunk]
        if time.time() - t_begin > 2 * timeout:
            unjudged += len(part)
            continue
        uniq = [r for run in part for r in run]
        trace_file = os.path.join(workdir, name + '_trace.ndjson')
        open(trace_file, 'w').write('\n'.join(json.dumps(r) for r in uniq) + '\n')
        out, rc, w = run_tlc(workdir, name, workers=1, extra_env={'TRACE': trace_file}, timeout=timeout)
        wall += w
        outs.append(out[-2000:])
        viols = extract_print(out, 'VIOLS')
        reached = extract_print(out, 'REACHED')
        if viols is None or reached is None:
            if rc == 124:
                unjudged += len(part)
                continue
            return {'error': out[-3000:], 'rc': rc, 'wall': wall}
        part_runs, cur = {}, None
        for i, r in enumerate(uniq, start=1):
            if r['kind'] == 'run':
                cur = r['run']
                part_runs[cur] = {'viols': [], 'first': i + 1, 'last': None, 'complete': False}
            elif r['kind'] == 'end':
                part_runs[cur]['last'] = i
                part_runs[cur]['complete'] = (i + 1) in set(reached)
        for (l, vs) in viols:
            for run, info in part_runs.items():
                if info['first'] <= l <= (info['last'] or 10 ** 9) + 1:
                    for v in vs:
                        if v not in info['viols']:
                            info['viols'].append(v)
        runs.update(part_runs)
    out = '\n'.join(outs)
    # give every run the verdict of its representative
    full = {}
    for key, run in rep.items():
        verdict = runs.get(run[0]['run'], {'viols': [], 'complete': False})
        for m in members[key]:
            full[m] = {'viols': list(verdict['viols']), 'complete': verdict['complete']}
    return {'runs': full, 'wall': wall, 'out': out, 'distinct_projections': len(rep), 'unjudged_projections': unjudged,
            'representatives': [run[0]['run'] for run in rep.values()]}
