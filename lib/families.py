"""Scenario families per property (programs are data: one JSON document feeds TLC and the Rust harness)."""
import copy, os, random
import scen as scenlib


def D(o, body=None, **kw):
    return dict(k='desync', o=o, body=body or [], **kw)


def S(o, body=None, **kw):
    return dict(k='sync', o=o, body=body or [], **kw)


def T(o, **kw):
    return dict(k='try_sync', o=o, **kw)


def FD(o, aw=(), then='keep', label=None, body=None, **kw):
    return dict(k='fdesync', o=o, aw=list(aw), then=then, label=label, body=body or [], **kw)


def FS(o, aw=(), then='keep', label=None, body=None, **kw):
    return dict(k='fsync', o=o, aw=list(aw), then=then, label=label, body=body or [], **kw)


def AF(o, g, then='keep', label=None, **kw):
    return dict(k='after', o=o, g=g, then=then, label=label, **kw)


def AW(label):
    return dict(k='await', ref=label)


def PO(label):
    return dict(k='poll', ref=label)


def DR(label):
    return dict(k='dropf', ref=label)


def WS(label):
    return dict(k='wait_sync', ref=label)


def FIRE(g):
    return dict(k='fire', g=g)


def BLOCK(g):
    return dict(k='block_on', g=g)


def SPUR(g):
    return dict(k='spur', g=g)


def DROP(o, unwinding=False):
    """drops the (last) owner; unwinding: the dropping thread is unwinding from a panic (Drop then uses sync_no_panic)"""
    return dict(k='drop_obj', o=o, then='unwinding') if unwinding else dict(k='drop_obj', o=o)


def BARRIER():
    """phase barrier: every thread of the scenario has the same number of them; passed when all other threads wait at it (or are done) and the pool is idle"""
    return dict(k='barrier')


def SU(o, then='keep', label=None):
    return dict(k='suspend', o=o, then=then, label=label)


def RS(label):
    return dict(k='resume', ref=label)


def DRS(label):
    return dict(k='drop_resumer', ref=label)


def P(o, p, **kw):
    return dict(k='pipe', o=o, p=p, **kw)


def PI(o, p, **kw):
    return dict(k='pipe_in', o=o, p=p, **kw)


def SEND(p, n):
    return dict(k='send', p=p, n=n)


def CLOSE(p):
    return dict(k='close_input', p=p)


def NEXT(p):
    return dict(k='next', p=p)


def DS(p):
    return dict(k='drop_stream', p=p)


def DEPTH(p, n):
    return dict(k='set_depth', p=p, n=n)


def SETMAX(n, real=False):
    """real: Scheduler::set_max_threads (stores the maximum, then wakes/spawns as many threads as it can); otherwise only the value is stored"""
    return dict(k='set_max', n=n, then='real') if real else dict(k='set_max', n=n)


def SPAWN():
    """Scheduler::spawn_thread: adds a pool thread whatever the maximum is"""
    return dict(k='spawn_thread')


def DESPAWN():
    return dict(k='despawn')


def make(name, objects, pool, gates, *threads, **extra):
    """threads: lists of ops; assigns ids and resolves labels"""
    s = {'name': name, 'objects': objects, 'pool': pool, 'gates': gates,
         'threads': [{'name': 'c%d' % (i + 1), 'ops': copy.deepcopy(list(ops))} for i, ops in enumerate(threads)]}
    s.update(extra)
    scenlib.assign_ids(s)
    labels = {}

    def collect(op):
        if op.get('label'):
            labels[op['label']] = op['id']
        for b in op.get('body', []):
            collect(b)

    def resolve(op):
        if 'ref' in op:
            op['f'] = labels[op.pop('ref')]
        if op.get('aw'):
            # a label in an await list is a nested await of that future (encoded as the negated op id)
            op['aw'] = [-labels[a] if isinstance(a, str) else a for a in op['aw']]
        op.pop('label', None)
        for b in op.get('body', []):
            resolve(b)

    def reserve(op):
        # the resume channel of a suspension is modelled as a private gate
        if op['k'] == 'suspend' and not op.get('g'):
            s['gates'] += 1
            op['g'] = s['gates']
        for b in op.get('body', []):
            reserve(b)

    for t in s['threads']:
        for op in t['ops']:
            collect(op)
    for t in s['threads']:
        for op in t['ops']:
            resolve(op)
            reserve(op)
    return s


def core_mix(pools=(0, 1, 2)):
    """The shared families of C01/C02/C03/C04/C09: every kind of runner and partner, small enough to enumerate"""
    out = []
    for p in pools:
        out.append(make('S_S_p%d' % p, 1, p, 0, [S(1)], [S(1)]))
        out.append(make('SD_DT_p%d' % p, 1, p, 0, [S(1), D(1)], [D(1), T(1)]))
        out.append(make('DD_S_p%d' % p, 1, p, 0, [D(1), D(1)], [S(1)]))
        out.append(make('D_T_S_p%d' % p, 1, p, 0, [D(1)], [T(1), S(1)]))
    for p in (1, 2):
        out.append(make('Da_Db_p%d' % p, 2, p, 0, [D(1), D(2)]))
        out.append(make('DaDb_DbSa_p%d' % p, 2, p, 0, [D(1), D(2)], [D(2), S(1)]))
        out.append(make('DnestS_p%d' % p, 2, p, 0, [D(2, body=[S(1)])], [D(1), T(2)]))
        out.append(make('SnestD_p%d' % p, 1, p, 0, [S(1, body=[D(1)])], [T(1)]))
    return out


def future_mix(pools=(0, 1, 2)):
    out = []
    for p in pools:
        out.append(make('FDaw_Fire_p%d' % p, 1, p, 1, [FD(1, aw=[1], then='await')], [FIRE(1)]))
        out.append(make('FD_S_Fire_p%d' % p, 1, p, 1, [FD(1, aw=[1], then='detach'), S(1)], [FIRE(1)]))
        # after(): the operation waits for an external future inside its slot of the queue
        out.append(make('AFaw_Fire_p%d' % p, 1, p, 1, [AF(1, 1, then='await')], [FIRE(1)]))
        out.append(make('AFdet_D_S_Fire_p%d' % p, 1, p, 1, [AF(1, 1, then='detach'), D(1), S(1)], [FIRE(1)]))
    for p in (1, 2):
        out.append(make('AFkeep_D_AW_Fire_p%d' % p, 1, p, 1, [AF(1, 1, label='f'), D(1), AW('f')], [FIRE(1)]))
        out.append(make('FDaw_Fire_D_p%d' % p, 1, p, 1, [FD(1, aw=[1], then='await')], [FIRE(1), D(1)]))
        out.append(make('FDkeep_D_AW_Fire_p%d' % p, 1, p, 1, [FD(1, aw=[1], label='f'), D(1), AW('f')], [FIRE(1)]))
        out.append(make('FDdet_D_Fire_T_p%d' % p, 1, p, 1, [FD(1, aw=[1], then='detach'), D(1)], [FIRE(1), T(1)]))
        out.append(make('FD2aw_Fire2_p%d' % p, 1, p, 2, [FD(1, aw=[1, 2], then='await')], [FIRE(1), FIRE(2)]))
        # polled once (the poll drains the queue and parks it in WaitingForPoll), then dropped / never polled again
        out.append(make('FD_PO_DR_D_Fire_p%d' % p, 1, p, 1, [FD(1, aw=[1], label='f'), PO('f'), DR('f'), D(1)], [FIRE(1)]))
        out.append(make('FD_D_PO_Fire_p%d' % p, 1, p, 1, [FD(1, aw=[1], label='f'), D(1), PO('f')], [FIRE(1)]))
        # ... and dropped after the wake-up, when a pool thread may have taken the parked queue over and be inside one of the jobs queued behind
        if p == 1:
            # (with two pool threads DesyncImpl does not follow every recorded run of this program yet - 12 of 60 rejected, one TLC evaluation
            #  error in trace validation: left out until the model is extended)
            out.append(make('FD_D_D_PO_DR_S_Fire_p%d' % p, 1, p, 1, [FD(1, aw=[1], label='f'), D(1), D(1), PO('f'), DR('f'), S(1)], [FIRE(1)]))
    return out


def spurious_families(pools=(0, 1)):
    """the adversary the Future contract allows: every waker the event source was ever given is invoked again (stale wakers)"""
    out = []
    for p in pools:
        out.append(make('spur_FDdet_S_p%d' % p, 1, p, 1, [FD(1, aw=[1], then='detach'), S(1)], [SPUR(1), SPUR(1), FIRE(1)]))
        out.append(make('spur_FDaw_p%d' % p, 1, p, 1, [FD(1, aw=[1], then='await')], [SPUR(1), FIRE(1), SPUR(1)]))
        # a stale wake-up arrives while a try_sync / immediate sync closure is running on the (otherwise idle) queue
        out.append(make('spur_during_T_p%d' % p, 1, p, 1, [FD(1, aw=[1], then='detach'), BARRIER(), BARRIER(), T(1), D(1), S(1), T(1)], [BARRIER(), FIRE(1), BARRIER(), SPUR(1)]))
        out.append(make('spur_during_S_p%d' % p, 1, p, 1, [FD(1, aw=[1], then='detach'), BARRIER(), BARRIER(), S(1), D(1), S(1)], [BARRIER(), FIRE(1), BARRIER(), SPUR(1)]))
        # exactly two wake-ups (the event and a stale repeat), at any position relative to the poll that suspends
        out.append(make('FDaw_Fire_Spur_p%d' % p, 1, p, 1, [FD(1, aw=[1], then='await'), S(1)], [FIRE(1), SPUR(1)]))
    # the stale thread waker of an earlier sync caller fires while a second caller is parked on the same queue, then the real wake-up arrives
    out.append(make('stale_WT_other_caller_p0', 1, 0, 2, [FD(1, aw=[1], then='detach'), S(1), BARRIER()],
                    [BARRIER(), FD(1, aw=[2], then='detach'), S(1)], [FIRE(1), BARRIER(), SPUR(1), FIRE(2)]))
    for p in (1, 2):
        out.append(make('spur_FDdet_D_S_p%d' % p, 1, p, 1, [FD(1, aw=[1], then='detach'), D(1)], [SPUR(1), FIRE(1)], [S(1)]))
        out.append(make('spur_FD2aw_p%d' % p, 1, p, 2, [FD(1, aw=[1, 2], then='await')], [FIRE(1), SPUR(1), FIRE(2)]))
    return out


def three_thread(pools=(1,)):
    out = []
    for p in pools:
        out.append(make('S_S_S_p%d' % p, 1, p, 0, [S(1)], [S(1)], [S(1)]))
        out.append(make('FDaw_Fire_DS_p%d' % p, 1, p, 1, [FD(1, aw=[1], then='await')], [FIRE(1)], [D(1), S(1)]))
        out.append(make('D_S_T_p%d' % p, 1, p, 0, [D(1), D(1)], [S(1)], [T(1)]))
    return out


def pool_families():
    out = []
    for p in (0, 1, 2):
        out.append(make('Da_Db_race_p%d' % p, 2, p, 0, [D(1)], [D(2)]))
    out.append(make('Da_Db_Dc_p2', 3, 2, 0, [D(1)], [D(2)], [D(3)]))
    out.append(make('Dblock_Db_p2', 2, 2, 1, [D(1, block=1), D(2)], [S(2)]))
    out.append(make('FDgate_Db_p1', 2, 1, 1, [FD(1, aw=[1], then='detach'), D(2)], [S(2)]))
    out.append(make('Sblockedcaller_Db_p1', 2, 1, 1, [D(1, block=1)], [D(2), S(2)], [FIRE(1)]))
    # nobody syncs: the other object's operation has to be run by the pool while k objects are blocked for ever
    out.append(make('Dblock_Db_nosync_p2', 2, 2, 1, [D(1, block=1), D(2)]))
    out.append(make('Dblock_Db_race_nosync_p2', 2, 2, 1, [D(1, block=1)], [D(2)]))
    out.append(make('Dblock_Dblock_Dc_p3', 3, 3, 2, [D(1, block=1), D(2, block=2)], [D(3)]))
    # ... also after an earlier job on an unrelated object has panicked on a pool thread (the pool replaces the thread it lost)
    out.append(make('panic_then_block_p2', 3, 2, 1, [D(3, panic=True), S(3), D(1, block=1), D(2)]))
    # the maximum is lowered (it stays above the number of blocked objects) and the surplus is despawned while one of the pool threads is
    # blocked in a job for ever: scheduling on the other objects goes on
    out.append(make('lower_blocked_surplus_p3', 3, 3, 1, [D(1), D(2), D(3, block=1), BARRIER(), SETMAX(2), BARRIER(), DESPAWN()], [BARRIER(), BARRIER(), D(2), D(1), D(2)], extra_pool=2))
    out.append(make('lower_blocked_surplus_p2', 2, 2, 1, [D(1), D(2, block=1), BARRIER(), SETMAX(1), BARRIER(), DESPAWN()], [BARRIER(), BARRIER(), D(1), D(1)], extra_pool=2))
    return out


def parked_drainer_families():
    """a future job suspended inside a thread that drains synchronously (queue WaitingForUnpark) while another thread syncs / drops"""
    return [
        make('WSpark_DROP_p0', 1, 0, 2, [FD(1, aw=[1], label='f'), FIRE(2), WS('f')], [BLOCK(2), DROP(1)], [FIRE(1)]),
        make('WSpark_S_p0', 1, 0, 2, [FD(1, aw=[1], label='f'), FIRE(2), WS('f')], [BLOCK(2), S(1)], [FIRE(1)]),
        make('Spark_T_D_p0', 1, 0, 2, [FD(1, aw=[1], then='detach'), FIRE(2), S(1)], [BLOCK(2), T(1), D(1)], [FIRE(1)]),
    ]


def drop_families(pools=(0, 1)):
    out = []
    for p in pools:
        out.append(make('D_DROP_p%d' % p, 1, p, 0, [D(1), DROP(1)]))
        out.append(make('DD_DROP_S_p%d' % p, 2, p, 0, [D(1), D(1), DROP(1)], [S(2)]))
        out.append(make('FDdet_DROP_Fire_p%d' % p, 1, p, 1, [FD(1, aw=[1], then='detach'), DROP(1)], [FIRE(1)]))
    # the last owner is dropped by a thread that is unwinding from a panic (Drop for Desync then takes the sync_no_panic path)
    for p in pools:
        out.append(make('DD_DROPunw_p%d' % p, 1, p, 0, [D(1), D(1), DROP(1, unwinding=True)]))
        out.append(make('FD_DROPunw_Fire_p%d' % p, 1, p, 1, [FD(1, aw=[1], then='detach'), DROP(1, unwinding=True)], [FIRE(1)]))
        out.append(make('FD_D_DROPunw_Fire_p%d' % p, 1, p, 1, [FD(1, aw=[1], then='detach'), D(1), DROP(1, unwinding=True)], [FIRE(1)]))
    for p in (1, 2):
        out.append(make('DROPfromjob_p%d' % p, 2, p, 0, [D(1), D(2, body=[DROP(1)])], [S(2)]))
        out.append(make('FDdet_D_DROP_Fire_p%d' % p, 1, p, 1, [FD(1, aw=[1], then='detach'), D(1), DROP(1)], [FIRE(1)]))
    return out


def fsync_families(pools=(0, 1, 2)):
    out = []
    for p in pools:
        out.append(make('FSaw_p%d' % p, 1, p, 0, [FS(1, then='await')]))
        out.append(make('FSaw_g_Fire_p%d' % p, 1, p, 1, [FS(1, aw=[1], then='await')], [FIRE(1)]))
        # the awaiting task becomes the queue's runner and an earlier operation goes pending inside its drain
        out.append(make('FDdet_g_FSaw_Fire_p%d' % p, 1, p, 1, [FD(1, aw=[1], then='detach'), FS(1, then='await'), S(1)], [FIRE(1)]))
        out.append(make('AF_g_FSaw_Fire_T_p%d' % p, 1, p, 1, [FD(1, aw=[1], then='detach'), FS(1, then='await')], [FIRE(1), T(1)]))
    for p in pools:
        # an operation scheduled between the return of future_sync and the first poll of its future stays behind the reserved slot
        out.append(make('FS_D_AW_S_p%d' % p, 1, p, 0, [FS(1, label='f'), D(1), AW('f'), S(1)]))
        out.append(make('D_FS_FD_AW_p%d' % p, 1, p, 0, [D(1), FS(1, label='f'), FD(1, then='detach'), AW('f')], [T(1)]))
    for p in (1, 2):
        out.append(make('FSaw_g_D_Fire_p%d' % p, 1, p, 1, [FS(1, aw=[1], then='await'), D(1)], [FIRE(1)]))
        out.append(make('D_FSdrop_S_p%d' % p, 1, p, 0, [D(1), FS(1, then='drop'), S(1)]))
        out.append(make('D_FS_PO_DR_S_p%d' % p, 1, p, 1, [D(1), FS(1, aw=[1], label='f'), PO('f'), DR('f'), S(1), FIRE(1)], [T(1)]))
        out.append(make('FS_PO_PO_DR_D_p%d' % p, 1, p, 1, [FS(1, aw=[1], label='f'), PO('f'), PO('f'), DR('f'), D(1), FIRE(1)], [D(1)]))
        out.append(make('FS_PO_Fire_AW_p%d' % p, 1, p, 1, [FS(1, aw=[1], label='f'), PO('f'), FIRE(1), AW('f')], [D(1), S(1)]))
        out.append(make('FS_DR_D_p%d' % p, 1, p, 0, [FS(1, label='f'), DR('f'), D(1)], [T(1)]))
        out.append(make('D_FSaw_S_p%d' % p, 1, p, 0, [D(1), FS(1, then='await')], [S(1)]))
    # nested awaits of one Desync's future from another's (the repository's four nested-await tests as exhaustive scenarios)
    for p in (1, 2) if len(pools) > 1 else (1,):
        out.append(make('nest_FSa_awaits_FDb_p%d' % p, 2, p, 0, [FS(1, then='await', body=[FD(2, label='x')], aw=['x'])]))
        out.append(make('nest_FDb_awaits_FSa_p%d' % p, 2, p, 0, [FD(2, then='await', body=[FS(1, label='x')], aw=['x'])]))
        out.append(make('nest_FSa_awaits_FSb_p%d' % p, 2, p, 0, [FS(1, then='await', body=[FS(2, label='x')], aw=['x'])], [D(2), S(1)]))
        out.append(make('nest_FDa_awaits_FDb_g_p%d' % p, 2, p, 1, [FD(1, then='await', body=[FD(2, aw=[1], label='x')], aw=['x']), S(2)], [FIRE(1)]))
    return out


def suspend_families(pools=(0, 1)):
    out = []
    for p in pools:
        out.append(make('SU_D_RS_S_p%d' % p, 1, p, 0, [SU(1, then='await', label='s'), D(1), RS('s'), S(1)]))
        out.append(make('D_SU_AW_D_DRS_S_p%d' % p, 1, p, 0, [D(1), SU(1, label='s'), AW('s'), D(1), DRS('s')], [S(1)]))
    out.append(make('SU_DR_D_S_p0', 1, 0, 0, [SU(1, label='s'), DR('s'), D(1), S(1)]))
    for p in (1, 2):
        out.append(make('SU_RS_Sother_p%d' % p, 1, p, 0, [D(1), SU(1, then='await', label='s'), D(1), RS('s')], [S(1), T(1)]))
        out.append(make('SU_FD_RS_p%d' % p, 1, p, 1, [SU(1, then='await', label='s'), FD(1, aw=[1], then='detach'), RS('s'), S(1)], [FIRE(1)]))
        # a later future is polled once while the queue is still pending: the poll drains up to the suspension and parks the queue
        out.append(make('SU_FD_PO_AW_RS_DR_p%d' % p, 1, p, 0, [D(1), SU(1, label='s'), FD(1, label='f'), D(1), PO('f'), AW('s'), RS('s'), DR('f')]))
        out.append(make('SU_FD_PO_AW_DRS_p%d' % p, 1, p, 0, [SU(1, label='s'), FD(1, label='f'), D(1), PO('f'), AW('s'), DRS('s')], [T(1)]))
        # the future returned by suspend() is dropped without having delivered the resumer: that resumes the queue
        out.append(make('SU_DR_D_S_p%d' % p, 1, p, 0, [SU(1, label='s'), DR('s'), D(1), S(1)]))
        out.append(make('D_SU_PO_DR_D_p%d' % p, 1, p, 0, [D(1), SU(1, label='s'), PO('s'), DR('s'), D(1), S(1)], [T(1)]))
        out.append(make('SU_D_DR_vs_S_p%d' % p, 1, p, 0, [SU(1, label='s'), D(1), DR('s')], [S(1)]))
        # a sync caller runs the suspension (the queue waits for its thread to be unparked) while a queue waker retained from an earlier
        # future operation is woken again
        out.append(make('FD_SUsync_SPUR_D_RS_p%d' % p, 1, p, 1, [S(1)], [FD(1, aw=[1], then='detach'), FIRE(1), SU(1, then='await', label='s'), SPUR(1), D(1), RS('s'), S(1)]))
        # a thread waker retained from an earlier synchronous drain is woken again while the queue is suspended on a pool thread (or on
        # the awaiting task); another thread's sync arrives during the suspension
        out.append(make('staleWT_SU_S_p%d' % p, 1, p, 1, [FD(1, aw=[1], then='detach'), S(1), BARRIER(), SU(1, label='s'), AW('s'), D(1), SPUR(1), BARRIER(), RS('s')],
                        [FIRE(1), BARRIER(), BARRIER(), S(1)]))
    return out


def panic_families(pools=(1, 2)):
    out = []
    for p in pools:
        out.append(make('Dpanic_Db_Sb_p%d' % p, 2, p, 0, [D(1, panic=True), D(2)], [S(2)]))
        out.append(make('Spanic_then_ops_p%d' % p, 2, p, 0, [S(1, panic=True), D(1), S(1), T(1), D(2), S(2)]))
        out.append(make('Dpanic_S_later_p%d' % p, 2, p, 0, [D(1, panic=True), S(1), D(2), S(2), D(1)]))
        out.append(make('FDpanic_aw_later_p%d' % p, 2, p, 1, [FD(1, aw=[1], then='await', panic=True), S(1), D(2), S(2)], [FIRE(1)]))
        out.append(make('steal_panic_p%d' % p, 2, p, 0, [S(1)], [D(1, panic=True), S(1), S(1)], [T(1), D(2), S(2)]))
        out.append(make('Tpanic_later_p%d' % p, 1, p, 0, [T(1, panic=True), S(1), D(1)]))
        # the owner of the panicked object is dropped by a thread that is itself unwinding: no second panic, the healthy object is unaffected
        out.append(make('Dpanic_S_DROPunw_p%d' % p, 2, p, 0, [D(1, panic=True), S(1), DROP(1, unwinding=True), D(2), S(2)]))
        out.append(make('Spanic_DROPunw_Db_p%d' % p, 2, p, 0, [S(1, panic=True), DROP(1, unwinding=True), S(2)], [D(2)]))
    out.append(make('steal_panic_p0', 1, 0, 0, [S(1)], [D(1, panic=True), S(1), S(1)], [T(1)]))
    out.append(make('capacity_p1', 3, 1, 0, [D(1, panic=True), S(1), D(2), D(3), S(2), S(3)]))
    out.append(make('FSpanic_later_p1', 1, 1, 0, [FS(1, then='await', panic=True), S(1), D(1)]))
    return out


def max_families():
    out = pool_families()
    # C17 quantifies over maximum changes *between phases*: the lowering thread passes a barrier first (no other thread is inside the scheduler)
    out.append(make('setmax_despawn_p2', 2, 2, 0, [D(1), D(2), BARRIER(), SETMAX(1), DESPAWN(), BARRIER(), D(1), S(1)],
                    [S(2), BARRIER(), BARRIER(), D(2), S(2)], extra_pool=1))
    out.append(make('setmax0_despawn_p1', 2, 1, 0, [D(1), S(1), BARRIER(), SETMAX(0), DESPAWN(), D(2), S(2)]))
    # the maximum is lowered while the only pool thread is occupied and another queue waits in the schedule
    out.append(make('lower_busy_backlog_p1', 3, 1, 1, [D(1, block=1), D(2), BARRIER(), SETMAX(0), DESPAWN(), D(3), S(3)], [BARRIER(), FIRE(1)]))
    out.append(make('lower_busy_backlog_p2', 3, 2, 1, [D(1, block=1), D(2), D(3), BARRIER(), SETMAX(1), DESPAWN(), D(2), S(2)], [BARRIER(), FIRE(1), S(3)]))
    # the real set_max_threads: stores the value and then wakes / spawns threads eagerly
    out.append(make('setmax_real_raise_p0', 2, 0, 0, [D(1), D(2), SETMAX(2, real=True), S(1), S(2)], extra_pool=2, drivers=['dfs']))
    out.append(make('setmax_real_raise_idle_p1', 1, 1, 0, [D(1), S(1), SETMAX(2, real=True), D(1), S(1)], extra_pool=1, drivers=['dfs']))
    out.append(make('setmax_real_lower_p2', 2, 2, 0, [D(1), D(2), BARRIER(), SETMAX(1, real=True), DESPAWN(), BARRIER(), D(1), S(1)], [S(2), BARRIER(), BARRIER(), D(2)], extra_pool=1, drivers=['dfs']))
    out.append(make('setmax_real_zero_p1', 2, 1, 0, [D(1), S(1), BARRIER(), SETMAX(0, real=True), DESPAWN(), D(2), S(2)], drivers=['dfs']))
    # threads added explicitly with spawn_thread take work like any other and are brought back to the maximum by despawn
    out.append(make('spawn_thread_despawn_p1', 2, 1, 0, [SPAWN(), D(1), D(2), S(1), S(2), BARRIER(), DESPAWN(), D(1), S(1)], extra_pool=2))
    out.append(make('spawn_thread_race_p1', 2, 1, 0, [SPAWN(), D(1), S(1)], [D(2), S(2)], extra_pool=2))
    out.append(make('raise_max_p0', 2, 0, 0, [D(1), SETMAX(2), D(2), D(1)], [S(1), S(2)], extra_pool=2))
    # a pool thread has been killed by a panicking job and is reaped by one caller while another caller schedules work
    out.append(make('panic_reap_race_p2', 5, 2, 0, [D(2), D(1, panic=True), BARRIER(), D(3)], [BARRIER(), D(4), D(5)], extra_pool=3))
    return out


def pipe_in_families(pools=(1,)):
    out = []
    for p in pools:
        out.append(make('PI_send2_close_S_p%d' % p, 1, p, 0, [PI(1, 1), SEND(1, 1), SEND(1, 2), CLOSE(1)], [S(1)], pipes=1))
        out.append(make('PI_send_drop_send_p%d' % p, 1, p, 0, [PI(1, 1), SEND(1, 1), DROP(1), SEND(1, 2)], pipes=1))
        out.append(make('PI_sender_vs_D_p%d' % p, 1, p, 0, [PI(1, 1), D(1), S(1)], [SEND(1, 1), SEND(1, 2), CLOSE(1)], pipes=1))
        out.append(make('PI_burst_T_p%d' % p, 1, p, 0, [PI(1, 1), SEND(1, 1), SEND(1, 2), SEND(1, 3)], [T(1), S(1)], pipes=1))
        out.append(make('PI_drop_vs_send_p%d' % p, 1, p, 0, [PI(1, 1), SEND(1, 1), DROP(1)], [SEND(1, 2), CLOSE(1)], pipes=1))
        # an item is announced while the previous poll job is still running or finishing, and an operation is queued right behind it
        out.append(make('PI_send_send_D_S_p%d' % p, 1, p, 0, [PI(1, 1), SEND(1, 1), SEND(1, 2), D(1), S(1)], pipes=1))
        out.append(make('PI_send_D_send_D_p%d' % p, 1, p, 0, [PI(1, 1), SEND(1, 1), D(1), SEND(1, 2), D(1), CLOSE(1)], [S(1)], pipes=1))
    out.append(make('PI_procgate_p1', 1, 1, 1, [PI(1, 1, g=1), SEND(1, 1), SEND(1, 2), S(1)], [FIRE(1)], pipes=1))
    out.append(make('PI_p0_sync_drives', 1, 0, 0, [PI(1, 1), SEND(1, 1), S(1), CLOSE(1), S(1)], pipes=1))
    return out


def pipe_families(pools=(1,)):
    out = []
    for p in pools:
        out.append(make('P_send_next_close_next_p%d' % p, 1, p, 0, [P(1, 1), SEND(1, 1), NEXT(1), CLOSE(1), NEXT(1)], pipes=1))
        out.append(make('P_cons_vs_feeder_p%d' % p, 1, p, 0, [P(1, 1), NEXT(1), NEXT(1)], [SEND(1, 1), CLOSE(1)], pipes=1))
        out.append(make('P_depth1_bp_p%d' % p, 1, p, 0, [P(1, 1), DEPTH(1, 1), SEND(1, 1), SEND(1, 2), NEXT(1), NEXT(1)], pipes=1))
        out.append(make('P_depth1_cons_vs_feeder_p%d' % p, 1, p, 0, [P(1, 1), DEPTH(1, 1), NEXT(1), NEXT(1), NEXT(1)], [SEND(1, 1), SEND(1, 2), CLOSE(1)], pipes=1))
        # the consumer reads while the producer is throttled and the buffer is still full afterwards (burst over depth 1; depth lowered later)
        out.append(make('P_depth1_burst3_p%d' % p, 1, p, 0, [P(1, 1), DEPTH(1, 1), SEND(1, 1), SEND(1, 2), SEND(1, 3), NEXT(1), NEXT(1), NEXT(1)], pipes=1))
        out.append(make('P_lower_depth_burst_p%d' % p, 1, p, 0, [P(1, 1), SEND(1, 1), SEND(1, 2), S(1), DEPTH(1, 1), SEND(1, 3), NEXT(1), NEXT(1), NEXT(1)], pipes=1))
        out.append(make('P_feed_vs_SD_p%d' % p, 1, p, 0, [P(1, 1), SEND(1, 1), SEND(1, 2), CLOSE(1)], [S(1), D(1)], pipes=1))
        out.append(make('P_procgate_p%d' % p, 1, p, 1, [P(1, 1, g=1), SEND(1, 1), NEXT(1)], [FIRE(1)], [S(1)], pipes=1))
    return out


def pipe_drop_families(pools=(1,)):
    out = []
    for p in pools:
        out.append(make('P_send_dropstream_p%d' % p, 1, p, 0, [P(1, 1), SEND(1, 1), DS(1)], pipes=1))
        out.append(make('P_dropstream_idle_dropobj_p%d' % p, 1, p, 0, [P(1, 1), DS(1), DROP(1)], pipes=1))
        out.append(make('P_dropstream_vs_send_p%d' % p, 1, p, 0, [P(1, 1), DS(1)], [SEND(1, 1), SEND(1, 2)], pipes=1))
        out.append(make('P_bp_dropstream_p%d' % p, 1, p, 0, [P(1, 1), DEPTH(1, 1), SEND(1, 1), SEND(1, 2), DS(1), DROP(1)], pipes=1))
        # the stream is dropped while the producer is idle (registered with a silent input) and the buffer is full
        out.append(make('P_depth1_full_idle_dropstream_p%d' % p, 1, p, 0, [P(1, 1), DEPTH(1, 1), SEND(1, 1), DS(1), DROP(1)], pipes=1))
        out.append(make('P_depth2_full_idle_dropstream_p%d' % p, 1, p, 0, [P(1, 1), DEPTH(1, 2), BARRIER(), SEND(1, 1), SEND(1, 2)], [BARRIER(), DS(1)], pipes=1))
        # the output stream holds the last strong reference and is dropped by another thread while the producer is in the middle of its loop
        out.append(make('P_dropobj_send_vs_dropstream_p%d' % p, 1, p, 0, [P(1, 1), DROP(1), BARRIER(), SEND(1, 1)], [BARRIER(), DS(1)], pipes=1))
        out.append(make('P_dropobj_procgate_dropstream_p%d' % p, 1, p, 1, [P(1, 1, g=1), DROP(1), SEND(1, 1), BARRIER(), FIRE(1)], [BARRIER(), DS(1)], pipes=1))
        out.append(make('P_send_next_dropstream_p%d' % p, 1, p, 0, [P(1, 1), SEND(1, 1), NEXT(1), SEND(1, 2), DS(1)], [S(1)], pipes=1))
        out.append(make('P_procgate_dropstream_p%d' % p, 1, p, 1, [P(1, 1, g=1), SEND(1, 1), DS(1)], [FIRE(1)], pipes=1))
    return out


def for_property(prop, tier, seed=0):
    """Returns the list of scenarios a property's check explores"""
    quick = tier == 'quick'
    if prop in ('C01', 'C02'):
        fam = core_mix((0, 1) if quick else (0, 1, 2)) + future_mix((0, 1) if quick else (0, 1, 2)) + parked_drainer_families()[1:]
        fam += [s for s in fsync_families((0, 1) if quick else (0, 1, 2)) if s['name'].startswith(('FS_D_AW', 'D_FS_FD_AW'))]
        fam += three_thread((0,))[:1]
        if not quick:
            fam += three_thread((0, 1, 2))
    elif prop == 'C03':
        fam = core_mix((1,) if quick else (1, 2)) + future_mix((1,) if quick else (1, 2)) + pool_families()[:2]
        # work accepted by a pipe: every item handed to the input is processed (and, for pipe(), reaches the consumer) without any further call
        fam += [s for s in pipe_families((1,) if quick else (1, 2)) if s['name'].startswith(('P_depth1_cons_vs_feeder', 'P_depth1_bp', 'P_cons_vs_feeder'))]
        fam += [s for s in pipe_in_families((1,)) if s['name'].startswith(('PI_sender_vs_D', 'PI_send_send_D_S'))]
        if not quick:
            fam += three_thread((1, 2))
    elif prop == 'C04':
        fam = core_mix((0, 1) if quick else (0, 1, 2)) + [s for s in future_mix((0, 1) if quick else (0, 1, 2)) if '_S_' in s['name'] or 'FDaw' in s['name']]
        fam += three_thread((0,))[:1] + parked_drainer_families()[1:] + [s for s in spurious_families((0, 1)) if any(op['k'] == 'sync' for op in scenlib.flatten(s).values())]
        if not quick:
            fam += three_thread((0, 1, 2))
    elif prop == 'C06':
        fam = future_mix((0, 1) if quick else (0, 1, 2)) + spurious_families((0, 1) if quick else (0, 1, 2))
        # the awaiting task runs the queue, another thread's sync is blocked behind the suspended operation, a third thread fires the event
        fam += [make('FDaw_S_Fire_p%d' % p, 1, p, 1, [FD(1, aw=[1], then='await')], [S(1)], [FIRE(1)]) for p in (0, 1)]
        fam += three_thread((0,))[1:2]
        if not quick:
            fam += three_thread((0, 1, 2))
    elif prop == 'C07':
        fam = future_mix((1,) if quick else (1, 2)) + [make('FDaw_Fire_p0', 1, 0, 1, [FD(1, aw=[1], then='await'), FIRE(1)][:1], [FIRE(1)]),
                                                               make('AFaw_Fire_p0', 1, 0, 1, [AF(1, 1, then='await')], [FIRE(1)])]
    elif prop == 'C09':
        fam = [s for s in core_mix((0, 1) if quick else (0, 1, 2)) + future_mix((1,) if quick else (1, 2)) + spurious_families((0, 1) if quick else (0, 1, 2))
               if any(op['k'] == 'try_sync' for op in scenlib.flatten(s).values())]
    elif prop == 'C10':
        fam = pool_families()
    elif prop == 'C17':
        fam = max_families()
    elif prop == 'C05':
        fam = drop_families((0, 1) if quick else (0, 1, 2)) + parked_drainer_families()[:1]
        # ... and the pipe scenarios in which the owner (or the pipe, as last owner) drops the object
        fam += [s for s in pipe_drop_families((1,) if quick else (1, 2)) + pipe_in_families((1,)) if any(op['k'] == 'drop_obj' for op in scenlib.flatten(s).values())]
    elif prop == 'C08':
        fam = fsync_families((0, 1) if quick else (0, 1, 2))
        if quick:
            fam = [x for x in fam if not x['name'].endswith('_p2')]
    elif prop == 'C13':
        fam = suspend_families((0, 1) if quick else (0, 1, 2))
    elif prop == 'C14':
        fam = core_mix((1,))[:4] + drop_families((1,)) + fsync_families((1,))[:6] + parked_drainer_families()
    elif prop == 'C11':
        fam = pipe_in_families((1,) if quick else (1, 2))
    elif prop == 'C12':
        fam = pipe_families((1,) if quick else (1, 2))
    elif prop == 'C16':
        fam = pipe_drop_families((1,) if quick else (1, 2))
    elif prop == 'C15':
        fam = panic_families((1,) if quick else (1, 2, 3))
    else:
        fam = []
    # unique names
    seen, out = set(), []
    for s in fam:
        if s['name'] not in seen:
            seen.add(s['name'])
            out.append(s)
    if quick and len(out) > QUICK_CAP:
        # the quick tier keeps a fixed core (spread over the sub-families) and rotates the remainder with the seed
        spread = spread_order(out)
        core, rest = spread[:QUICK_CAP - 4], spread[QUICK_CAP - 4:]
        rnd = random.Random(seed)
        rnd.shuffle(rest)
        out = core + rest[:4]
    # generated programs (VERIF_GEN overrides the number; VERIF_GEN_ONLY=1 explores nothing else)
    # (quick tier: only for the properties whose quick run with generated programs has been seen clean - 0 violations, 0 drift - on the
    #  unchanged tree; C16's two generated programs showed model drift and the others were not run before the end of the session)
    ngen = int(os.environ.get('VERIF_GEN', (GEN_QUICK if prop in GEN_QUICK_VETTED else 0) if quick else GEN_THOROUGH))
    gen = generated(prop, seed, ngen)
    if os.environ.get('VERIF_GEN_ONLY') == '1':
        return gen
    return out + gen


QUICK_CAP = 30
GEN_QUICK = 2
GEN_QUICK_VETTED = ('C01', 'C02', 'C03', 'C04', 'C05', 'C06', 'C09', 'C10', 'C11', 'C13', 'C14', 'C17')
GEN_THOROUGH = 12


def spread_order(scenarios):
    """Orders scenarios so that every prefix is spread over the name stems (S_S, SD_DT, FDaw_Fire, ...) and pool sizes"""
    groups = {}
    for s in scenarios:
        stem = s['name'].rsplit('_p', 1)[0]
        groups.setdefault(stem, []).append(s)
    # within a stem: one pool thread first (callers racing a pool thread), then none (callers carry everything), then more
    rank = {1: 0, 0: 1, 2: 2, 3: 3}
    for stem in groups:
        groups[stem].sort(key=lambda s: rank.get(s['pool'], 9))
    out, level = [], 0
    while any(len(g) > level for g in groups.values()):
        for stem in groups:
            if len(groups[stem]) > level:
                out.append(groups[stem][level])
        level += 1
    return out


# ---------------------------------------------------------------------------------------------------------------------------------
# Generated programs: the hand-written families are a finite sample of each property's quantifier ("for every program ..."); the
# generator draws further programs from the same operation grammar, valid by construction (a future is closed at most once and by
# the thread that made it, nobody calls into an object after its last owner dropped it, no nested sync on the same object, ...).
# The same seed always gives the same programs.

GEN_CLASS = {'C01': 'mix', 'C02': 'mix', 'C03': 'mix', 'C04': 'mix', 'C09': 'mix', 'C06': 'future', 'C07': 'future', 'C08': 'fsync', 'C10': 'block',
             'C13': 'suspend', 'C05': 'drop', 'C14': 'drop', 'C15': 'panic', 'C11': 'pipe_in', 'C12': 'pipe', 'C16': 'pipe_drop', 'C17': None}

GEN_WEIGHTS = {
    'mix':     dict(D=30, S=22, T=16, FD=18, FS=8, AF=6),
    'future':  dict(D=15, S=15, T=8, FD=40, FS=10, AF=12),
    'fsync':   dict(D=20, S=12, T=10, FD=18, FS=40),
    'block':   dict(D=50, S=20, T=5, FD=25),
    'suspend': dict(D=35, S=25, T=15, FD=15, FS=10),
    'drop':    dict(D=40, S=15, T=10, FD=30, AF=5),
    'panic':   dict(D=35, S=30, T=15, FD=20),
}


def _pick(rnd, weights):
    tot = sum(weights.values())
    x = rnd.uniform(0, tot)
    for k, w in weights.items():
        x -= w
        if x <= 0:
            return k
    return k


def gen_scenario(rnd, cls, name):
    if cls in ('pipe', 'pipe_in', 'pipe_drop'):
        return _gen_pipe(rnd, cls, name)
    nobj = 1 if rnd.random() < 0.55 else 2
    if cls == 'block':
        nobj = rnd.choice([2, 2, 3])
    pool = rnd.choice({'mix': [0, 1, 1, 2], 'future': [0, 1, 1, 2], 'fsync': [0, 1, 1, 2], 'block': [1, 2, 2, 3], 'suspend': [0, 1, 1, 2],
                       'drop': [0, 1, 1, 2], 'panic': [1, 1, 2]}[cls])
    nthreads = rnd.choice([1, 2, 2, 2, 2, 3]) if cls in ('future', 'fsync', 'suspend') else rnd.choice([2, 2, 2, 3])
    budget = rnd.randint(3, 6 if nthreads < 3 else 5)
    gates = [0]
    threads = [[] for _ in range(nthreads)]
    lab = [0]
    fires = []           # (gate, creator thread)
    closers = []         # (thread, index of the creating op, [closing ops])
    dropped_obj = None
    drop_thread = None
    if cls == 'drop':
        dropped_obj, drop_thread = rnd.randint(1, nobj), rnd.randrange(nthreads)
    panicked = [False]

    def new_gate(t):
        gates[0] += 1
        fires.append((gates[0], t))
        return gates[0]

    def new_label():
        lab[0] += 1
        return 'f%d' % lab[0]

    def obj_for(t):
        objs = [o for o in range(1, nobj + 1) if not (o == dropped_obj and t != drop_thread)]
        return rnd.choice(objs) if objs else None

    def small_body(o):
        # a nested operation on another object (never the same one)
        others = [x for x in range(1, nobj + 1) if x != o and x != dropped_obj]
        if not others or rnd.random() > 0.18:
            return None
        o2 = rnd.choice(others)
        return [rnd.choice([S, D, T])(o2)]

    for _ in range(budget):
        t = rnd.randrange(nthreads)
        o = obj_for(t)
        if o is None:
            continue
        k = _pick(rnd, GEN_WEIGHTS[cls])
        kw = {}
        if cls == 'panic' and not panicked[0] and k in ('D', 'S', 'T', 'FD') and rnd.random() < 0.4:
            kw['panic'] = True
            panicked[0] = True
        if k == 'D':
            if cls == 'block' and gates[0] < 2 and rnd.random() < 0.5:
                kw['block'] = new_gate(t)
            threads[t].append(D(o, body=small_body(o), **kw))
        elif k == 'S':
            threads[t].append(S(o, body=small_body(o), **kw))
        elif k == 'T':
            threads[t].append(T(o, **kw))
        elif k in ('FD', 'FS', 'AF'):
            g = new_gate(t) if gates[0] < 2 and (k == 'AF' or rnd.random() < 0.6) else None
            if k == 'AF' and g is None:
                k = 'FD'
            if k == 'FD':
                then = rnd.choice(['await', 'detach', 'detach', 'keep'])
            elif k == 'FS':
                then = rnd.choice(['await', 'await', 'drop', 'keep'])
            else:
                then = rnd.choice(['await', 'detach', 'keep'])
            label = new_label() if then == 'keep' else None
            if k == 'FD':
                op = FD(o, aw=[g] if g else [], then=then, label=label, **kw)
            elif k == 'FS':
                op = FS(o, aw=[g] if g else [], then=then, label=label)
            else:
                op = AF(o, g, then=then, label=label)
            threads[t].append(op)
            if then == 'keep':
                choices = [[AW(label)], [DR(label)], []]
                if g:
                    # a single poll is followed by another use of the future only if that poll cannot have completed it: the event
                    # the operation waits for is then fired by the same thread, after the poll
                    choices += [[PO(label), DR(label)], [PO(label), AW(label)], [PO(label)]]
                if k == 'FD':
                    choices.append([WS(label)])
                if k == 'FS':
                    # the future of future_sync is always awaited or dropped explicitly (the harness would drop it when its thread ends,
                    # which is not an operation of the program)
                    choices = [c for c in choices if c and c[-1]['k'] in ('await', 'dropf')]
                cl = rnd.choice(choices)
                if cl and cl[0]['k'] == 'poll' and len(cl) > 1:
                    fires[:] = [(x, c) for x, c in fires if x != g]
                    cl = [cl[0], FIRE(g)] + cl[1:] if rnd.random() < 0.8 else cl
                closers.append((t, op, cl))
    # suspensions: one per scenario, requested and released by the same thread
    if cls == 'suspend':
        t = rnd.randrange(nthreads)
        o = rnd.randint(1, nobj)
        label = new_label()
        pos = rnd.randint(0, len(threads[t]))
        shape = rnd.choice(['await_rs', 'await_rs', 'await_drs', 'keep_aw_rs', 'keep_dr', 'keep_po_dr'])
        if shape in ('await_rs', 'await_drs'):
            threads[t].insert(pos, SU(o, then='await', label=label))
            end = rnd.randint(pos + 1, len(threads[t]))
            threads[t].insert(end, RS(label) if shape == 'await_rs' else DRS(label))
        elif shape == 'keep_aw_rs':
            threads[t].insert(pos, SU(o, label=label))
            a = rnd.randint(pos + 1, len(threads[t]))
            threads[t].insert(a, AW(label))
            end = rnd.randint(a + 1, len(threads[t]))
            threads[t].insert(end, RS(label))
        else:
            threads[t].insert(pos, SU(o, label=label))
            end = rnd.randint(pos + 1, len(threads[t]))
            if shape == 'keep_po_dr':
                threads[t].insert(end, PO(label))
                end += 1
            threads[t].insert(end, DR(label))
    # closing operations of kept futures: somewhere after the creating operation, in order, in the creating thread
    for t, op, cl in closers:
        pos = next(i for i, x in enumerate(threads[t]) if x is op)
        for c in cl:
            pos = rnd.randint(pos + 1, len(threads[t]))
            threads[t].insert(pos, c)
    # external events: fired by another thread if there is one (sometimes the same), now and then woken again (stale wakers)
    for g, creator in fires:
        others = [i for i in range(nthreads) if i != creator]
        if rnd.random() < 0.08 and cls != 'block':
            continue                                         # never fired: the operation stays suspended for ever
        t = rnd.choice(others) if others and rnd.random() < 0.85 else creator
        pos = rnd.randint(0, len(threads[t]))
        threads[t].insert(pos, FIRE(g))
        if cls in ('future', 'mix', 'suspend') and rnd.random() < 0.3:
            threads[t].insert(rnd.randint(0, len(threads[t])), SPUR(g))
    if cls == 'drop':
        # (an unwinding thread that drains the queue poisons every object whose operations it runs meanwhile - observation O1 of
        #  DESIGN.md, outside the listed properties: no nested bodies on the dropped object in that case)
        nested = any(op.get('body') for t in threads for op in t if op.get('o') == dropped_obj)
        threads[drop_thread].append(DROP(dropped_obj, unwinding=(not nested) and rnd.random() < 0.25))
    threads = [t for t in threads if t] or [[D(1)]]
    if cls == 'block' and not any(op['k'] == 'sync' for t in threads for op in t) and rnd.random() < 0.5:
        pass
    return make(name, nobj, pool, gates[0], *threads)


def _gen_pipe(rnd, cls, name):
    pool = rnd.choice([1, 1, 2, 0])
    kind = 'pipe_in' if cls == 'pipe_in' else 'pipe'
    gate = 1 if rnd.random() < 0.2 else 0
    create = (PI if kind == 'pipe_in' else P)(1, 1, **({'g': 1} if gate else {}))
    nsend = rnd.randint(1, 3)
    feeder = [SEND(1, i + 1) for i in range(nsend)]
    closed = rnd.random() < 0.6
    if closed:
        feeder.append(CLOSE(1))
    consumer = []
    main = [create]
    if kind == 'pipe':
        if rnd.random() < 0.5:
            main.append(DEPTH(1, rnd.choice([1, 1, 2])))
        nnext = rnd.randint(0, nsend + (1 if closed else 0))
        if cls == 'pipe_drop':
            nnext = rnd.randint(0, max(0, nsend - 1))
        consumer = [NEXT(1) for _ in range(nnext)]
        if cls == 'pipe_drop' or rnd.random() < 0.25:
            consumer.append(DS(1))
    others = []
    for _ in range(rnd.randint(0, 2)):
        others.append(rnd.choice([S, D, T])(1))
    drop = rnd.random() < (0.45 if cls != 'pipe' else 0.15)
    layout = rnd.choice(['one', 'feeder_apart', 'consumer_apart', 'ops_apart'])
    gates = 1 if gate else 0
    t1, t2 = list(main), []
    if layout == 'one':
        seq = _interleave(rnd, feeder, consumer)
        t1 += seq
        t2 = others
    elif layout == 'feeder_apart':
        t1 += consumer
        t2 = feeder
        t1 = _scatter(rnd, t1, others, 1)
    elif layout == 'consumer_apart':
        t1 += feeder
        t2 = consumer if consumer else others
        if consumer:
            t1 = _scatter(rnd, t1, others, 1)
    else:
        t1 += _interleave(rnd, feeder, consumer)
        t2 = others or [S(1)]
    if drop:
        # the owner's handle goes away once this thread has made its last call into the object
        if not any(op['k'] in ('sync', 'desync', 'try_sync') for op in t2):
            last = max([i for i, op in enumerate(t1) if op['k'] in ('sync', 'desync', 'try_sync', 'pipe', 'pipe_in')])
            t1.insert(rnd.randint(last + 1, len(t1)), DROP(1))
    threads = [t1] + ([t2] if t2 else [])
    if gate:
        threads.append([FIRE(1)])
    return make(name, 1, pool, gates, *threads, pipes=1)


def _interleave(rnd, a, b):
    """feeder operations a and consumer operations b in one thread: a read is placed only when an item (or the end) is there for it"""
    a, b, out = list(a), list(b), []
    avail = 0
    while a or b:
        can_read = b and (b[0]['k'] != 'next' or avail > 0)
        if a and (not can_read or rnd.random() < 0.55):
            out.append(a.pop(0))
            avail += 1
        elif can_read:
            x = b.pop(0)
            if x['k'] == 'next':
                avail -= 1
            out.append(x)
        else:
            b.pop(0)
    return out


def _scatter(rnd, seq, extra, first):
    seq = list(seq)
    for x in extra:
        seq.insert(rnd.randint(first, len(seq)), x)
    return seq


def generated(prop, seed, n):
    cls = GEN_CLASS.get(prop)
    if not cls or n <= 0:
        return []
    out = []
    for i in range(n):
        rnd = random.Random('%s/%s/%d/%d' % (prop, cls, seed, i))
        out.append(gen_scenario(rnd, cls, 'gen_%s_%d_%d' % (cls, seed, i)))
    return out
