"""Trace validation: converts recorded harness traces for TLC and generates the trace-validation modules."""
import json, os, re
import scen

QSTATE = re.compile(r'^(\w+)')


def label_tags(spec='DesyncImpl.tla'):
    """label -> set of tags, from the `label:  \\* [tag] / [tag]` comments in the PlusCal source"""
    text = open(os.path.join(scen.SPEC_DIR, spec)).read()
    text = text[:text.index('BEGIN TRANSLATION')]
    tags = {}
    for m in re.finditer(r'^\s*([a-z]\w*):\s*\\\*(.*)$', text, re.M):
        found = re.findall(r'\[(\w+)\]', m.group(2))
        if found:
            tags[m.group(1)] = found
    return tags


def procedures(spec='DesyncImpl.tla'):
    text = open(os.path.join(scen.SPEC_DIR, spec)).read()
    text = text[:text.index('BEGIN TRANSLATION')]
    return re.findall(r'^procedure (\w+)\(', text, re.M)


NPIPES = [0]


def convert(lines, npipes=None):
    if npipes is not None:
        NPIPES[0] = npipes
    return _convert(lines)


def _convert(lines):
    """Harness NDJSON lines (one batch, one scenario) -> list of records for TLC"""
    out = []
    started, ended, rets = set(), set(), {}
    pflags, pcnt = {}, {}
    npipes = 0
    for line in lines:
        r = json.loads(line)
        if 'run' in r:
            started, ended, rets = set(), set(), {}
            pflags, pcnt = {}, {}
            out.append({'kind': 'run', 'run': r['run']})
        elif 'end' in r:
            out.append({'kind': 'end', 'run': r['end'], 'clean': bool(r['clean']), 'quiet': not r.get('overrun', False)})
        elif 't' in r:
            for kind, a, b in r['obs']:
                if kind == 'start':
                    started.add(a)
                elif kind == 'end':
                    ended.add(a)
                elif kind == 'ret':
                    rets[a] = b
                elif kind in ('in_end', 'in_dropped', 'closure_dropped', 'stream_dropped', 'out_end'):
                    pflags.setdefault(a, set()).add(kind)
                elif kind in ('proc_start', 'proc_end', 'out'):
                    c = pcnt.setdefault(a, [0, 0, 0]); c[('proc_start', 'proc_end', 'out').index(kind)] += 1
            out.append({
                'kind': 'step', 't': r['t'], 'op': r['op'], 'cls': r['cls'],
                'q': [[QSTATE.match(s).group(1), n, w] for s, n, w in r['q']],
                'sch': r['sch'], 'thr': list(r['thr']), 'max': r['max'],
                'st': sorted(started), 'en': sorted(ended), 'rt': [[k, rets[k]] for k in sorted(rets)],
                'pf': [sorted(pflags.get(p, set())) for p in range(1, NPIPES[0] + 1)], 'pc': [list(pcnt.get(p, [0, 0, 0])) for p in range(1, NPIPES[0] + 1)],
                'obs': [[k, a, b] for k, a, b in r['obs']], 'fin': bool(r['fin']), 'tb': r['op'] == 'wait' or (r['op'] == 'join' and r.get('waited', True)) or (r['op'] == 'park' and r['loc'].startswith('job_queue') and r.get('waited', True)),
            })
    return out


def write_impl_trace(scn, fixes, outdir, name='TR'):
    tags = label_tags()
    silent = scen.silent_labels()
    allowed = ' @@ '.join('"%s" :> {%s}' % (l, ', '.join('"%s"' % t for t in ts)) for l, ts in sorted(tags.items()))
    procs = procedures()
    procstep = ' \\/ '.join('%s(p)' % p for p in procs) + ' \\/ (p \\in Threads /\\ caller(p)) \\/ (p \\in PoolSet /\\ pool(p))'
    tla = '''---- MODULE %(name)s ----
EXTENDS DesyncImpl, Json, IOUtils, TLCExt
%(consts)s
Rec == ndJsonDeserialize(IOEnv.TRACE)
VARIABLES l, wasBlocked   \\* wasBlocked: processes whose atomic region is (or was) blocked on a nested lock: they resume through a recorded event
SilentLabels == {%(silent)s}
Allowed == (%(allowed)s)
ProcStep(p) == %(procstep)s
Tag(e) == IF e.op = "lock" THEN e.cls ELSE e.op
ThrChars == [i \\in 1..Len(pthreads) |-> IF busyLocked[pthreads[i]] THEN "L" ELSE IF busy[pthreads[i]] THEN "B" ELSE "I"]
SeqToSet(s) == {s[i] : i \\in 1..Len(s)}
Match(e) == /\\ \\A o \\in Objs : e.q[o][1] = qstate[o] /\\ e.q[o][2] = Len(jobs[o]) /\\ e.q[o][3] = Len(wakeBlocked[o])
             /\\ e.sch = [i \\in 1..Len(schedule) |-> IF schedule[i] = Chute THEN 0 ELSE schedule[i]]
             /\\ e.thr = (IF thrHeld # "" THEN <<"?">> ELSE ThrChars)
             /\\ e.max = maxThreads
             /\\ SeqToSet(e.st) = {op \\in Ops : h.scnt[op] > 0}
             /\\ SeqToSet(e.en) = h.ended
             /\\ SeqToSet(e.rt) = {<<op, h.rets[op]>> : op \\in {x \\in Ops : h.rets[x] # NoRet}}
             /\\ \\A p \\in Pipes : SeqToSet(e.pf[p]) = h.pflags[p] \\ {"late_event", "in_closed"} /\\ e.pc[p] = <<h.pproc[p], h.pfin[p], h.pout[p]>>
QS == [o \\in Objs |-> <<qstate[o], Len(jobs[o])>>]
PrevMatches == (l > 1 /\\ Rec[l - 1].kind = "step") => Match(Rec[l - 1])
IsSilent(p) == pc[p] \\in SilentLabels \\/ (atomic[p] /\\ pc[p] # "Done" /\\ ~(pc[p] = "st_dormant" /\\ thrHeld = p) /\\ ~(pc[p] \\in {"st_reap", "st_dormant", "st_spawn"} /\\ thrHeld # "" /\\ thrHeld # p))
\\* inside an atomic region a step is silent unless the next recorded event is exactly that step (the region was blocked on a nested lock
\\* and the real thread announced it)
SilentOK(p) == IsSilent(p) /\\ p \\notin wasBlocked /\\ ~(atomic[p] /\\ pc[p] \\notin SilentLabels /\\ l <= Len(Rec) /\\ Rec[l].kind = "step" /\\ Rec[l].t = p
                              /\\ pc[p] \\in DOMAIN Allowed /\\ Tag(Rec[l]) \\in Allowed[pc[p]])
SilentPending == \\E p \\in Procs : SilentOK(p)
BlockedNow == {p \\in Procs : atomic[p] /\\ ~IsSilent(p) /\\ pc[p] \\notin SilentLabels /\\ pc[p] # "Done"}
TraceInit == Init /\\ wasBlocked = {} /\\ l \\in {i + 1 : i \\in {j \\in 1..Len(Rec) : Rec[j].kind = "run"}}
TraceNext == \\/ /\\ SilentPending
                /\\ \\E p \\in Procs : SilentOK(p) /\\ ProcStep(p)
                /\\ l' = l
                /\\ wasBlocked' = wasBlocked
             \\/ /\\ ~SilentPending
                /\\ l <= Len(Rec)
                /\\ Rec[l].kind = "step"
                /\\ Rec[l].t \\in Procs
                /\\ pc[Rec[l].t] \\in DOMAIN Allowed
                /\\ Tag(Rec[l]) \\in Allowed[pc[Rec[l].t]]
                /\\ PrevMatches
                /\\ ProcStep(Rec[l].t)
                /\\ l' = l + 1
                /\\ wasBlocked' = (wasBlocked \\cup BlockedNow) \\ {Rec[l].t}
TraceSpec == TraceInit /\\ [][TraceNext]_<<vars, l, wasBlocked>>
\\* the recorded run stopped because no thread could take a step (unless it hit the step limit): then no process of the specification can either
AtEnd == l <= Len(Rec) /\\ Rec[l].kind = "end" /\\ ~SilentPending /\\ PrevMatches /\\ (Rec[l].quiet => \\A p \\in Procs : ~ENABLED ProcStep(p))
EndViol == IF AtEnd THEN ObsQuiescent(h, QS, MC_Single).viol ELSE {}
DebugL == IF "DEBUGL" \\in DOMAIN IOEnv THEN IOEnv.DEBUGL ELSE "0"
Collect == /\\ TLCSet(2, TLCGet(2) \\cup {l})
           /\\ TLCSet(4, TLCGet(4) \\cup {pc[p] : p \\in Procs})
           /\\ (ToString(l) = DebugL => PrintT(<<"DEBUG", pc, qstate, jobs, schedule, jkind, jaw, gfired, gwaker, fres, fwaker, ready, cwait, cnotif, parkTok, rv, h>>))
           /\\ (AtEnd => TLCSet(1, TLCGet(1) \\cup {l}))
           /\\ ((h.viol \\cup EndViol) # {} => TLCSet(3, TLCGet(3) \\cup {<<l, h.viol \\cup EndViol>>}))
ASSUME TLCSet(1, {}) /\\ TLCSet(2, {}) /\\ TLCSet(3, {}) /\\ TLCSet(4, {})
Report == /\\ PrintT(<<"ACCEPTED", TLCGet(1)>>)
          /\\ PrintT(<<"REACHED", TLCGet(2)>>)
          /\\ PrintT(<<"VIOLS", TLCGet(3)>>)
          /\\ PrintT(<<"LABELS", TLCGet(4)>>)
====
''' % {'name': name, 'consts': scen.mc_constants(scn, fixes), 'silent': ', '.join('"%s"' % s for s in silent), 'allowed': allowed, 'procstep': procstep}
    cfg = 'SPECIFICATION TraceSpec\n' + scen.CONST_CFG + 'CONSTRAINT Collect\nPOSTCONDITION Report\nCHECK_DEADLOCK FALSE\n'
    open(os.path.join(outdir, name + '.tla'), 'w').write(tla)
    open(os.path.join(outdir, name + '.cfg'), 'w').write(cfg)


def write_obs_trace(scn, fixes, outdir, name='OT'):
    """Monitor-only module: drives DesyncObs with the recorded observable events (no implementation model involved)"""
    tla = '''---- MODULE %(name)s ----
EXTENDS DesyncObs, Json, IOUtils, TLCExt
%(consts)s
Rec == ndJsonDeserialize(IOEnv.TRACE)
VARIABLES h, l
IsPool(t) == t \\in {%(pool)s}
Apply1(hh, t, ev, e) ==
  LET k == ev[1] a == ev[2] b == ev[3] IN
  CASE k = "call"     -> IF K(a) = "try_sync" THEN ObsTryRest(ObsCall(hh, t, a), a, e.q[O(a)] = <<"Idle", 0, 0>>) ELSE ObsCall(hh, t, a)
    [] k = "ret"      -> ObsRet(hh, t, a, b)
    [] k = "start"    -> ObsStart(hh, t, a)
    [] k = "end"      -> ObsEnd(hh, t, a)
    [] k = "panic"    -> ObsPanic(hh, t, a)
    [] k = "dropped"  -> ObsDropped(hh, t, a)
    [] k = "fire"     -> ObsFire(hh, a)
    [] k = "resolved" -> ObsResolved(hh, t, a, b)
    [] k = "resume"   -> ObsResume(hh, t, a)
    [] k = "freed"    -> ObsFreed(hh, a)
    [] k = "spawn"    -> ObsSpawn(hh, t, b)
    [] k = "exit"     -> ObsExit(hh, t, IF IsPool(t) THEN 1 ELSE 0, b)
    [] k = "setmax"   -> ObsSetMax(hh, a)
    [] k = "sent"     -> ObsSent(hh, a, b)
    [] k = "in_closed" -> ObsInClosed(hh, a)
    [] k = "proc_start" -> ObsProcStart(hh, t, a, b)
    [] k = "proc_end" -> ObsProcEnd(hh, t, a, b)
    [] k = "out"      -> ObsOut(hh, a, b)
    [] k = "out_end"  -> ObsOutEnd(hh, a)
    [] k \in {"in_end", "in_dropped", "closure_dropped", "stream_dropped"} -> PFlag(hh, a, k)
    [] OTHER          -> hh
RECURSIVE ApplyAll(_, _, _, _, _)
ApplyAll(hh, t, evs, i, e) == IF i > Len(evs) THEN hh ELSE ApplyAll(Apply1(hh, t, evs[i], e), t, evs, i + 1, e)
StepH(hh, e) == ApplyAll(IF e.op \\in {"wait", "park", "join"} /\\ e.tb THEN ObsBlocked(hh, e.t) ELSE hh, e.t, e.obs, 1, e)
QSOf(e) == [o \\in Objs |-> <<e.q[o][1], e.q[o][2]>>]
OTInit == h = InitH /\\ l \\in {i + 1 : i \\in {j \\in 1..Len(Rec) : Rec[j].kind = "run"}}
OTNext == /\\ l <= Len(Rec)
          /\\ \\/ /\\ Rec[l].kind = "step"
                /\\ h' = StepH(h, Rec[l])
             \\/ /\\ Rec[l].kind = "end"
                /\\ h' = (IF Rec[l - 1].kind = "step" THEN ObsQuiescent(h, QSOf(Rec[l - 1]), MC_Single) ELSE h)
          /\\ l' = l + 1
OTSpec == OTInit /\\ [][OTNext]_<<h, l>>
Collect == (h.viol # {} => TLCSet(3, TLCGet(3) \\cup {<<l, h.viol>>})) /\\ TLCSet(2, TLCGet(2) \\cup {l})
ASSUME TLCSet(2, {}) /\\ TLCSet(3, {})
Report == PrintT(<<"REACHED", TLCGet(2)>>) /\\ PrintT(<<"VIOLS", TLCGet(3)>>)
====
''' % {'name': name, 'consts': scen.mc_constants(scn, fixes), 'pool': ', '.join('"p%d"' % i for i in range(1, 17))}
    cfg = '''SPECIFICATION OTSpec
CONSTANTS
  OpTab <- MC_OpTab
  NObj <- MC_NObj
  NGate <- MC_NGate
  Pool0 <- MC_Pool0
  NPipe <- MC_NPipe
CONSTRAINT Collect
POSTCONDITION Report
CHECK_DEADLOCK FALSE
'''
    open(os.path.join(outdir, name + '.tla'), 'w').write(tla)
    open(os.path.join(outdir, name + '.cfg'), 'w').write(cfg)
