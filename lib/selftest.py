"""check selftest: the checks are not vacuous and the binding is real.

1. Defect witnesses: with a repair toggle off, TLC must find the corresponding defect in the minimal scenario.
2. Binding: a recorded trace is accepted by DesyncImpl; the same trace with one corrupted field, one deleted step or two swapped
   steps must be rejected.
3. Vacuity: in every core scenario the monitors' antecedents are exercised (some operation starts, some future resolves)."""
import json, os, shutil, sys
import scen, tv, engine, families, tracegen
from families import *


def run():
    engine.translate_spec()
    engine.build_harness()
    wd = os.path.join(engine.VERIF, 'work', 'selftest-%d' % os.getpid())
    os.makedirs(wd, exist_ok=True)
    ok = True
    try:
        witnesses = [
            ('D1', {'FixD1': False}, make('SD_DT_p1', 1, 1, 0, [S(1), D(1)], [D(1), T(1)]), 'C03:'),
            ('D2', {'FixD2': False}, make('Da_Db_p1', 2, 1, 0, [D(1), D(2)]), 'C03:'),
            ('D3', {'FixD3': False}, make('S_S_p0', 1, 0, 0, [S(1)], [S(1)]), 'C04:sync-blocked'),
            ('D5', {'FixD5': False}, make('P_send_dropstream_p1', 1, 1, 0, [P(1, 1), SEND(1, 1), DS(1)], pipes=1), 'C16:'),
            ('D6', {'FixD6': False}, make('steal_panic_p0', 1, 0, 0, [S(1)], [D(1, panic=True), S(1), S(1)], [T(1)]), 'C15:'),
        ]
        for name, off, s, tag in witnesses:
            fixes = dict(engine.FIXES); fixes.update(off)
            r = engine.model_check(s, os.path.join(wd, name), fixes=fixes, timeout=120, workers=4)
            found = any(t.startswith(tag) for t in r.get('tags', []))
            print('witness %s (toggle off): %s  states=%s violation=%s tags=%s' % (name, 'FOUND' if found else 'NOT FOUND', r.get('distinct'), r.get('violation'), r.get('tags')))
            ok = ok and found
            r2 = engine.model_check(s, os.path.join(wd, name + 'on'), fixes=engine.FIXES, timeout=180, workers=4)
            clean = r2.get('complete') and not r2.get('violation')
            print('witness %s (repaired model): %s states=%s' % (name, 'clean' if clean else 'NOT CLEAN %s %s' % (r2.get('violation'), r2.get('tags')), r2.get('distinct')))
            ok = ok and bool(clean)

        # binding
        s = make('SD_DT_p1', 1, 1, 0, [S(1), D(1)], [D(1), T(1)])
        f = engine.write_scenario(s, wd)
        lines, _ = engine.run_harness(f, 'random', 5, 3, os.path.join(wd, 'b.ndjson'))
        base = tv.validate_impl(s, engine.FIXES, lines, os.path.join(wd, 'b0'))
        acc = sum(1 for v in base['runs'].values() if v['accepted'])
        print('binding: unmodified traces accepted %d/%d' % (acc, len(base['runs'])))
        ok = ok and acc == len(base['runs']) and acc > 0
        runs = engine.split_runs(lines)
        hdr, ls = runs[0]
        steps = [json.loads(l) for l in ls]

        def variant(mutate):
            st = [dict(x) for x in steps]
            mutate(st)
            return [json.dumps(x) for x in st]

        def corrupt_state(st):
            i = next(i for i, x in enumerate(st) if 't' in x and x['q'] and x['q'][0][0] == 'Running')
            st[i]['q'] = [['Idle'] + st[i]['q'][0][1:]] + st[i]['q'][1:]

        def delete_step(st):
            i = next(i for i, x in enumerate(st) if 't' in x and x['op'] == 'lock' and x['cls'] == 'sched')
            del st[i]

        def swap_steps(st):
            idx = [i for i, x in enumerate(st) if 't' in x]
            for a, b in zip(idx, idx[1:]):
                if st[a]['t'] != st[b]['t'] and st[a]['cls'] == 'core' and st[b]['cls'] == 'core':
                    st[a], st[b] = st[b], st[a]
                    return
            st[idx[3]], st[idx[4]] = st[idx[4]], st[idx[3]]

        for nm, mut in [('corrupted state field', corrupt_state), ('deleted step', delete_step), ('swapped steps', swap_steps)]:
            v = tv.validate_impl(s, engine.FIXES, variant(mut), os.path.join(wd, 'b1'))
            rejected = 'runs' in v and not any(x['accepted'] for x in v['runs'].values())
            print('binding: %s -> %s' % (nm, 'rejected' if rejected else 'ACCEPTED (bad)'))
            ok = ok and rejected
    finally:
        shutil.rmtree(wd, ignore_errors=True)
    print('selftest', 'ok' if ok else 'FAILED')
    return 0 if ok else 2
