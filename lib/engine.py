"""Per-scenario engines: TLC model checking, harness exploration, trace validation, monitoring, replay."""
import json, os, re, subprocess, shutil, time, hashlib
import scen, tracegen, tv

VERIF = os.path.normpath(os.path.join(os.path.dirname(os.path.abspath(__file__)), '..'))
HARNESS = os.path.join(VERIF, 'harness')
DVERIF = os.path.join(HARNESS, 'target', 'release', 'dverif')

# The committed tree carries these repairs; the specification models the repaired code (toggle off = pinned behaviour, used by selftest)
FIXES = {'FixD1': True, 'FixD2': True, 'FixD3': True, 'FixD5': True, 'FixD6': True}


class ToolError(Exception):
    pass


def build_harness():
    env = dict(os.environ, CARGO_NET_OFFLINE='true')
    p = subprocess.run(['cargo', 'build', '--release', '--offline'], cwd=HARNESS, env=env, stdout=subprocess.PIPE, stderr=subprocess.STDOUT, universal_newlines=True)
    if p.returncode != 0:
        raise ToolError('cargo build failed:\n' + p.stdout[-4000:])
    return p.stdout


def translate_spec():
    """(Re)translates the PlusCal algorithm if the translation is missing"""
    for spec in ['DesyncImpl.tla', 'Pipe.tla']:
        path = os.path.join(scen.SPEC_DIR, spec)
        if not os.path.exists(path):
            continue
        text = open(path).read()
        if 'BEGIN TRANSLATION' in text and 'VARIABLES' in text.split('BEGIN TRANSLATION')[1]:
            continue
        p = subprocess.run(['pcal', '-nocfg', spec], cwd=scen.SPEC_DIR, stdout=subprocess.PIPE, stderr=subprocess.STDOUT, universal_newlines=True)
        if p.returncode != 0 or 'Translation completed' not in p.stdout:
            raise ToolError('pcal failed on %s:\n%s' % (spec, p.stdout[-2000:]))
        old = path.replace('.tla', '.old')
        if os.path.exists(old):
            os.remove(old)


def run_harness(scn_file, driver, runs, seed, out_file, pb=2, script=None, max_steps=3000, timeout=600, scripts_file=None):
    """Runs the harness with its restart protocol; returns the recorded lines"""
    state = out_file + '.state'
    for f in (out_file, state):
        if os.path.exists(f):
            os.remove(f)
    t0 = time.time()
    restarts = 0
    while True:
        cmd = [DVERIF, 'run', '--scenario', scn_file, '--driver', driver, '--seed', str(seed), '--runs', str(runs), '--out', out_file, '--state', state,
               '--pb', str(pb), '--max-steps', str(max_steps), '--quiet']
        if script is not None:
            cmd += ['--script', ','.join(script)]
        if scripts_file is not None:
            cmd += ['--scripts-file', scripts_file]
        try:
            p = subprocess.run(cmd, stdout=subprocess.PIPE, stderr=subprocess.STDOUT, universal_newlines=True, timeout=max(5, timeout - (time.time() - t0)))
        except subprocess.TimeoutExpired:
            # a hung process (should not happen under the controlled runtime): keep what was recorded
            break
        if p.returncode == 3 and driver != 'script':
            restarts += 1
            if time.time() - t0 > timeout:
                break
            continue
        if p.returncode not in (0, 3):
            raise ToolError('harness failed (%d): %s' % (p.returncode, p.stdout[-2000:]))
        break
    lines = open(out_file).read().splitlines() if os.path.exists(out_file) else []
    # a harness that was stopped at the time limit leaves an unfinished run behind: keep the complete runs only
    last_end = max([i for i, l in enumerate(lines) if l.startswith('{"clean"')], default=-1)
    lines = lines[:last_end + 1]
    for f in (state,):
        if os.path.exists(f):
            os.remove(f)
    return lines, restarts


def split_runs(lines):
    """list of (header dict, [lines]) per run"""
    runs, cur = [], None
    for line in lines:
        if line.startswith('{"driver"') or '"run":' in line[:200] and '"sched"' in line:
            r = json.loads(line)
            if 'run' in r and 'sched' in r:
                cur = (r, [line])
                runs.append(cur)
                continue
        if cur is not None:
            cur[1].append(line)
    return runs


def model_check(scn, workdir, fixes=None, timeout=60, workers=4, name='MC', simulate=None):
    """Exhaustive TLC run (or -simulate). Returns dict(states, distinct, complete, violation tags, schedule of the counterexample)"""
    fixes = FIXES if fixes is None else fixes
    tv.copy_specs(workdir)
    scen.write_mc(scn, fixes, workdir, name)
    cex = os.path.join(workdir, name + '_cex.json')
    args = ['-dumpTrace', 'json', cex]
    if simulate:
        args = ['-simulate', 'num=%d' % simulate, '-depth', '400'] + args
    out, rc, wall = tv.run_tlc(workdir, name, workers=workers, timeout=timeout, heap='6g', more_args=args)
    res = {'wall': wall, 'complete': False, 'generated': 0, 'distinct': 0, 'violation': None, 'schedule': None, 'tags': [], 'timeout': rc == 124}
    m = re.findall(r'(\d+) states generated, (\d+) distinct states found, (\d+) states left on queue', out)
    if m:
        res['generated'], res['distinct'] = int(m[-1][0]), int(m[-1][1])
        res['complete'] = ('Model checking completed. No error has been found' in out)
    else:
        m = re.findall(r'Progress\(\d+\) at [^:]+:\d+:\d+: ([\d,]+) states generated.*?([\d,]+) distinct states found', out)
        if m:
            res['generated'], res['distinct'] = int(m[-1][0].replace(',', '')), int(m[-1][1].replace(',', ''))
    if simulate:
        m = re.search(r'(\d+) states checked', out)
        if m:
            res['generated'] = int(m.group(1))
    inv = re.search(r'Invariant (\w+) is violated', out)
    if inv:
        res['violation'] = inv.group(1)
        if os.path.exists(cex):
            d = json.load(open(cex))
            acts = d['counterexample']['action']
            states = d['counterexample']['state']
            sched = []
            for a in acts:
                act = a[1] if isinstance(a, list) else a
                nm, who = act['name'], act.get('context', {}).get('self')
                if who is not None and not nm.startswith('z_'):
                    sched.append(who)
            res['schedule'] = sched
            last = states[-1][1]
            res['tags'] = sorted(last['h']['viol'])
            qt = tv.extract_print(out, 'QTAGS')
            if qt:
                res['tags'] = sorted(set(res['tags']) | set(qt))
            res['final_pc'] = last['pc']
    elif 'Error' in out and not res['complete'] and rc != 124:
        res['error'] = out[-3000:]
    if os.path.exists(cex):
        os.remove(cex)
    return res


def model_liveness(scn, workdir, fixes=None, timeout=120, workers=2, name='ML'):
    """TLC liveness check of the scenario's model (weak fairness per process => eventually quiescent)"""
    fixes = FIXES if fixes is None else fixes
    tv.copy_specs(workdir)
    scen.write_liveness(scn, fixes, workdir, name)
    out, rc, wall = tv.run_tlc(workdir, name, workers=workers, timeout=timeout, heap='6g')
    res = {'wall': wall, 'checked': False, 'livelock': False, 'timeout': rc == 124}
    if 'Model checking completed. No error has been found' in out:
        res['checked'] = True
    elif re.search(r'Temporal propert\w+ .*violated', out):
        res['checked'] = True
        res['livelock'] = True
        # the labels of the processes that move inside the cycle
        back = out[out.find('constitutes a counter-example'):]
        res['cycle_labels'] = sorted(set(re.findall(r'<(\w+)\(', back)))[:40]
    elif rc != 124:
        res['error'] = out[-1500:]
    return res


def write_scenario(scn, workdir, name=None):
    path = os.path.join(workdir, (name or scn['name']) + '.json')
    os.makedirs(workdir, exist_ok=True)
    json.dump(scn, open(path, 'w'))
    return path


def chunk_runs(lines, nchunks):
    runs = split_runs(lines)
    chunks = [[] for _ in range(max(1, nchunks))]
    for i, (_, ls) in enumerate(runs):
        chunks[i % len(chunks)].extend(ls)
    return [c for c in chunks if c]


def model_behaviours(scn, workdir, count, seed=1, fixes=None, timeout=120, with_labels=False):
    """Random complete behaviours of the specification (tlc -simulate), as schedules of thread names for the harness's script driver"""
    fixes = FIXES if fixes is None else fixes
    tv.copy_specs(workdir)
    scen.write_behaviours(scn, fixes, workdir, 'MB')
    out, rc, wall = tv.run_tlc(workdir, 'MB', workers=1, timeout=timeout, heap='2g', more_args=['-simulate', 'num=%d' % count, '-depth', '600', '-seed', str(seed)])
    scripts = []
    for chunk in out.split('"BEHAVIOUR",')[1:]:
        # balanced << >> starting at the first <<
        start = chunk.find('<<')
        depth, i, end = 0, start, None
        while 0 <= i < len(chunk) - 1:
            two = chunk[i:i + 2]
            if two == '<<':
                depth += 1; i += 2; continue
            if two == '>>':
                depth -= 1; i += 2
                if depth == 0:
                    end = i
                    break
                continue
            i += 1
        if end is None:
            continue
        try:
            steps = tv.parse_tla_set(chunk[start:end])
        except Exception:
            continue
        sc = [((p, label) if with_labels else p) for (p, label, atomic) in steps if not label.startswith('z_') and not atomic]
        if sc not in scripts:
            scripts.append(sc)
    return scripts[:count]
