"""Scenarios: one JSON document is the source of truth for the TLC constants and for the Rust harness."""
import json, os, re

SPEC_DIR = os.path.join(os.path.dirname(os.path.abspath(__file__)), '..', 'spec')

MAX_POLL = 8
OP_FIELDS = ['k', 'o', 'g', 'aw', 'body', 'panic', 'block', 'f', 'then', 'n', 't', 'par', 'p']


def flatten(scn):
    """Returns {id: op record with defaults, 't' (thread) and 'par' (parent op id)}"""
    ops = {}

    def walk(op, thread, parent):
        rec = {'k': op['k'], 'o': op.get('o', 0), 'g': op.get('g', 0), 'aw': op.get('aw', []), 'body': [b['id'] for b in op.get('body', [])],
               'panic': bool(op.get('panic', False)), 'block': op.get('block', 0), 'f': op.get('f', 0), 'then': op.get('then', 'keep'),
               'n': op.get('n', 0), 't': thread, 'par': parent, 'p': op.get('p', 0)}
        if rec['o'] == 0 and rec['f'] != 0 and rec['f'] in ops:
            rec['o'] = ops[rec['f']]['o']
        assert op['id'] not in ops, 'duplicate op id %s' % op['id']
        ops[op['id']] = rec
        for b in op.get('body', []):
            walk(b, thread, op['id'])

    for th in scn['threads']:
        for op in th['ops']:
            walk(op, th['name'], 0)
    # synthetic jobs of the pipe layer: poll jobs (one per wake), the two reference-chute jobs and the final free of the Desync
    for i, r in list(ops.items()):
        if r['k'] in ('pipe', 'pipe_in'):
            p = r['p']
            base = dict(g=0, aw=[], body=[], panic=False, block=0, f=0, then='keep', t='', par=0, p=p)
            for k in range(1, MAX_POLL + 1):
                ops[1000 + 20 * p + k] = dict(base, k='pipepoll', o=r['o'], n=k)
            ops[1500 + 10 * p + 1] = dict(base, k='chute_release', o=scn['objects'] + 1, n=0)
            ops[1500 + 10 * p + 2] = dict(base, k='chute_dropfn', o=scn['objects'] + 1, n=0)
            ops[1500 + 10 * p + 3] = dict(base, k='pipe_free', o=r['o'], n=0)
    return ops


def assign_ids(scn):
    """Gives every op that lacks one an id (pre-order); returns the scenario"""
    nxt = [1]

    def walk(op):
        if 'id' not in op:
            op['id'] = nxt[0]
        nxt[0] = max(nxt[0], op['id']) + 1
        for b in op.get('body', []):
            walk(b)

    for th in scn['threads']:
        for op in th['ops']:
            walk(op)
    return scn


def tla_val(v):
    if isinstance(v, bool):
        return 'TRUE' if v else 'FALSE'
    if isinstance(v, int):
        return str(v)
    if isinstance(v, str):
        return '"%s"' % v
    if isinstance(v, list):
        return '<<' + ', '.join(tla_val(x) for x in v) + '>>'
    raise ValueError(v)


def optab_tla(ops):
    recs = []
    for i in sorted(ops):
        r = ops[i]
        recs.append('%d :> [%s]' % (i, ', '.join('%s |-> %s' % (f, tla_val(r[f])) for f in OP_FIELDS)))
    return '(' + ' @@ '.join(recs) + ')'


def pool_names(scn):
    n = scn.get('pool_names')
    if n is None:
        mx = scn['pool']
        for r in flatten(scn).values():
            if r['k'] == 'set_max':
                mx = max(mx, r['n'])
        n = mx + scn.get('extra_pool', 0) + sum(1 for r in flatten(scn).values() if r['panic'])
    return ['p%d' % (i + 1) for i in range(n)]


def silent_labels(spec='DesyncImpl.tla'):
    text = open(os.path.join(SPEC_DIR, spec)).read()
    text = text[:text.index('BEGIN TRANSLATION')] if 'BEGIN TRANSLATION' in text else text
    return sorted(set(re.findall(r'^\s*(z_\w+):', text, re.M)))


def per_process_vars(spec='DesyncImpl.tla'):
    """pc, stack and the procedure locals of the translation (variables indexed by process and written only by that process)"""
    text = open(os.path.join(SPEC_DIR, spec)).read()
    text = text[text.index('BEGIN TRANSLATION'):]
    init = text[text.index('Init =='):]
    init = init[:init.index('\n\n')]
    names = re.findall(r'/\\ (\w+) = \[\s*self \\in ProcSet \|->', init)
    procs = init[init.index('(* Procedure'):] if '(* Procedure' in init else init
    # ... and the globals indexed by process that only the process itself writes
    return [n for n in names if re.search(r'/\\ %s = \[' % n, procs)] + ['rv', 'rwb', 'rneed', 'dsl', 'atomic']


def all_labels(spec='DesyncImpl.tla'):
    text = open(os.path.join(SPEC_DIR, spec)).read()
    text = text[:text.index('BEGIN TRANSLATION')]
    return sorted(set(re.findall(r'^\s*([a-z]\w*):(?!=)', text, re.M)))


def mc_constants(scn, fixes):
    """TLA+ definitions of the scenario constants (shared by the model-checking and the trace-validation modules)"""
    ops = flatten(scn)
    threads = [t['name'] for t in scn['threads']]
    prog = ' @@ '.join('"%s" :> %s' % (t['name'], tla_val([o['id'] for o in t['ops']])) for t in scn['threads'])
    # DrainWaker / DoubleWaker instances the model may create: one per poll of a future by a task, with room for re-polls
    nfut = sum(1 for r in ops.values() if r['k'] in ('fdesync', 'fsync', 'after', 'suspend', 'poll', 'await', 'wait_sync'))
    ndw = scn.get('max_dw', max(6, 4 * nfut))
    lines = [
        'MC_OpTab == %s' % optab_tla(ops),
        'MC_Threads == {%s}' % ', '.join('"%s"' % t for t in threads),
        'MC_PoolNames == %s' % tla_val(pool_names(scn)),
        'MC_Prog == (%s)' % prog,
        'MC_NObj == %d' % scn['objects'],
        'MC_NGate == %d' % scn.get('gates', 0),
        'MC_Pool0 == %d' % scn['pool'],
        'MC_NPipe == %d' % scn.get('pipes', 0),
        'MC_MaxDW == %d' % ndw,
        # one context uses the objects (threads that only fire external events, or wake retained wakers, are event sources, not users)
        'MC_Single == %s' % ('TRUE' if sum(1 for t in scn['threads'] if any(op['k'] not in ('fire', 'spur') for op in t['ops'])) <= 1 else 'FALSE'),
    ]
    for f in ['FixD1', 'FixD2', 'FixD3', 'FixD5', 'FixD6']:
        lines.append('MC_%s == %s' % (f, 'TRUE' if fixes.get(f, False) else 'FALSE'))
    return '\n'.join(lines)


CONST_CFG = '''CONSTANTS
  OpTab <- MC_OpTab
  Threads <- MC_Threads
  PoolNames <- MC_PoolNames
  Prog <- MC_Prog
  NObj <- MC_NObj
  NGate <- MC_NGate
  Pool0 <- MC_Pool0
  NPipe <- MC_NPipe
  MaxDW <- MC_MaxDW
  FixD1 <- MC_FixD1
  FixD2 <- MC_FixD2
  FixD3 <- MC_FixD3
  FixD5 <- MC_FixD5
  FixD6 <- MC_FixD6
  defaultInitValue = defaultInitValue
'''


def write_mc(scn, fixes, outdir, name='MC'):
    """Writes <name>.tla/.cfg for exhaustive model checking of the scenario"""
    silent = silent_labels()
    tla = '''---- MODULE %s ----
EXTENDS DesyncImpl, TLCExt
%s
SilentLabels == {%s}
IsSilent(p) == pc[p] \\in SilentLabels \\/ (atomic[p] /\\ pc[p] # "Done" /\\ ~(pc[p] = "st_dormant" /\\ thrHeld = p) /\\ ~(pc[p] \\in {"st_reap", "st_dormant", "st_spawn"} /\\ thrHeld # "" /\\ thrHeld # p))
SilentPriority == (\\E p \\in Procs : IsSilent(p)) => (\\E p \\in Procs : IsSilent(p) /\\ (pc'[p] # pc[p] \\/ stack'[p] # stack[p]))
QS == [o \\in Objs |-> <<qstate[o], Len(jobs[o])>>]
NoViol == h.viol = {}
QuiescentOK == (~ENABLED Next) => LET v == ObsQuiescent(h, QS, MC_Single).viol IN IF v = {} THEN TRUE ELSE PrintT(<<"QTAGS", v>>) /\\ FALSE
HView == <<qstate, qpoll, jobs, wakeBlocked, schedule, pthreads, nspawned, palive, busy, busyLocked, inbox, chanOpen, pfin, thrHeld, maxThreads,
           jkind, jaw, fres, fwaker, gfired, gwaker, gthreads, dwSt, dwW, dblTaken, dblW1, dblW2, nextDW, ready, cwait, cnotif, sdres, parkTok, rv, pc, stack>>
====
''' % (name, mc_constants(scn, fixes), ', '.join('"%s"' % l for l in silent))
    cfg = 'SPECIFICATION Spec\n' + CONST_CFG + 'ACTION_CONSTRAINT SilentPriority\nINVARIANT NoViol\nINVARIANT QuiescentOK\nCHECK_DEADLOCK FALSE\n'
    open(os.path.join(outdir, name + '.tla'), 'w').write(tla)
    open(os.path.join(outdir, name + '.cfg'), 'w').write(cfg)


def write_liveness(scn, fixes, outdir, name='ML'):
    """Module for the liveness check: under weak fairness of every process (thread, pool thread) every behaviour of the scenario's
    model reaches a state in which no process can take a step - the model has no livelock, so that the obligations judged at
    quiescence (sync returns, futures resolve, queues drain, consumers wake) are judged on every fair behaviour"""
    import tracegen
    write_mc(scn, fixes, outdir, name)
    procs = tracegen.procedures()
    procstep = ' \\/ '.join('%s(p)' % p for p in procs) + ' \\/ (p \\in Threads /\\ caller(p)) \\/ (p \\in PoolSet /\\ pool(p))'
    path = os.path.join(outdir, name + '.tla')
    tla = open(path).read().replace('====', '''ProcStep(p) == %s
FairSpec == Init /\\ [][Next]_vars /\\ \\A p \\in Procs : WF_vars(ProcStep(p))
Quiet == \\A p \\in Procs : ~ENABLED ProcStep(p)
EventuallyQuiet == <>Quiet
====''' % procstep)
    open(path, 'w').write(tla)
    cfg = 'SPECIFICATION FairSpec\n' + CONST_CFG + 'ACTION_CONSTRAINT SilentPriority\nINVARIANT NoViol\nPROPERTY EventuallyQuiet\nCHECK_DEADLOCK FALSE\n'
    open(os.path.join(outdir, name + '.cfg'), 'w').write(cfg)


def write_behaviours(scn, fixes, outdir, name='MB'):
    """Module for `tlc -simulate`: prints the schedule of every complete behaviour (who moved at which label)"""
    silent = silent_labels()
    tla = '''---- MODULE %s ----
EXTENDS DesyncImpl, TLCExt
%s
SilentLabels == {%s}
IsSilent(p) == pc[p] \\in SilentLabels \\/ (atomic[p] /\\ pc[p] # "Done" /\\ ~(pc[p] = "st_dormant" /\\ thrHeld = p) /\\ ~(pc[p] \\in {"st_reap", "st_dormant", "st_spawn"} /\\ thrHeld # "" /\\ thrHeld # p))
SilentPriority == (\\E p \\in Procs : IsSilent(p)) => (\\E p \\in Procs : IsSilent(p) /\\ (pc'[p] # pc[p] \\/ stack'[p] # stack[p]))
Moved(s1, s2, p) == %s
Mover(s1, s2) == IF \\E p \\in Procs : Moved(s1, s2, p) THEN CHOOSE p \\in Procs : Moved(s1, s2, p) ELSE "?"
SchedOf(tr) == [i \\in 1..(Len(tr) - 1) |-> LET p == Mover(tr[i], tr[i + 1]) IN IF p = "?" THEN <<"?", "z_none", 0>> ELSE <<p, tr[i].pc[p], IF tr[i].atomic[p] THEN 1 ELSE 0>>]
NextNT == Next /\\ ~(\\A p \\in Procs : pc[p] = "Done")
SpecNT == Init /\\ [][NextNT]_vars
Final == ~ENABLED NextNT
ASSUME TLCSet(5, <<>>)
EmitBehaviour == Final => LET s == SchedOf(Trace) IN IF TLCGet(5) = s THEN TRUE ELSE TLCSet(5, s) /\\ PrintT(<<"BEHAVIOUR", s>>)
====
''' % (name, mc_constants(scn, fixes), ', '.join('"%s"' % l for l in silent), ' \\/ '.join('s1.%s[p] # s2.%s[p]' % (v, v) for v in per_process_vars()))
    cfg = 'SPECIFICATION SpecNT\n' + CONST_CFG + 'ACTION_CONSTRAINT SilentPriority\nINVARIANT EmitBehaviour\nCHECK_DEADLOCK FALSE\n'
    open(os.path.join(outdir, name + '.tla'), 'w').write(tla)
    open(os.path.join(outdir, name + '.cfg'), 'w').write(cfg)


def load(path):
    return assign_ids(json.load(open(path)))
