----------------------------- MODULE DesyncImpl -----------------------------
(***************************************************************************)
(* Implementation-shaped specification of the desync scheduler.            *)
(*                                                                         *)
(* One PlusCal label per scheduling point of the real code under the       *)
(* controlled runtime: every outermost mutex acquisition, condvar wait,    *)
(* park, channel receive, join and harness yield.  Procedures carry the    *)
(* names of the Rust functions.  Labels starting with z_ are silent: they  *)
(* are pure control transfers (or tails of the previous step) that the     *)
(* real code performs without a scheduling point; the action constraint    *)
(* SilentPriority fuses them with the preceding step.                      *)
(***************************************************************************)
EXTENDS Integers, Sequences, FiniteSets, TLC, DesyncObs

CONSTANTS Threads,     \* caller thread names (strings)
          PoolNames,   \* sequence of pool thread names in spawn order
          Prog,        \* thread -> sequence of op ids
          MaxDW,       \* number of DrainWaker instances available
          FixD1, FixD2, FixD3, FixD5, FixD6

PoolSet == {PoolNames[i] : i \in 1..Len(PoolNames)}
Procs   == Threads \cup PoolSet
DWs     == 1..MaxDW

NoW        == [k |-> "none", q |-> 0, t |-> "", d |-> 0]
WQ(q)      == [k |-> "WQ",   q |-> q, t |-> "", d |-> 0]
WT(q, t)   == [k |-> "WT",   q |-> q, t |-> t,  d |-> 0]
DW(d)      == [k |-> "DW",   q |-> 0, t |-> "", d |-> d]
DBL(d)     == [k |-> "DBL",  q |-> 0, t |-> "", d |-> d]
TASK(t)    == [k |-> "TASK", q |-> 0, t |-> t,  d |-> 0]
PW(j)      == [k |-> "PW",   q |-> 0, t |-> "", d |-> j]
IsLocking(w) == w.k \in {"WQ", "WT", "DW", "DBL", "PW"}

Waiting == {"WaitingForWake", "WaitingForPoll", "WaitingForUnpark"}
RunningStates == {"Running", "AwokenWhileRunning", "WaitingForPoll", "WaitingForUnpark"}

Chute  == NObj + 1        \* the queue of pipe.rs' REFERENCE_CHUTE
QObjs  == 1..(NObj + 1)
PollJobs(p) == {j \in Ops : K(j) = "pipepoll" /\ OpTab[j].p = p}
ChuteJob(p, kind) == CHOOSE j \in Ops : K(j) = kind /\ OpTab[j].p = p
Body(op) == OpTab[op].body
Aw(op)   == OpTab[op].aw

GateOfOp(op) == IF K(op) \in {"resume", "drop_resumer"} THEN OpTab[OpTab[op].f].g ELSE OpTab[op].g
FutKinds == {"fdesync", "after"}

(* --algorithm Desync {
variables
  qstate = [q \in QObjs |-> "Idle"],
  qpoll  = [q \in QObjs |-> 0],
  jobs   = [q \in QObjs |-> << >>],
  wakeBlocked = [q \in QObjs |-> << >>],
  schedule = << >>,
  pthreads = << >>,
  nspawned = 0,
  palive = [p \in PoolSet |-> FALSE],
  busy = [p \in PoolSet |-> FALSE],
  busyLocked = [p \in PoolSet |-> FALSE],
  inbox = [p \in PoolSet |-> 0],
  chanOpen = [p \in PoolSet |-> FALSE],
  pfin = [p \in PoolSet |-> FALSE],
  thrHeld = "",
  maxThreads = Pool0,
  jkind = [j \in Ops |-> "none"],
  jaw   = [j \in Ops |-> 0],
  fres  = [f \in Ops |-> "none"],
  fwaker = [f \in Ops |-> NoW],
  gfired = {},
  gwaker = [g \in Gates |-> NoW],
  gthreads = [g \in Gates |-> {}],
  gwhist = [g \in Gates |-> << >>],
  dwSt = [d \in DWs |-> "NotWoken"],
  dwW  = [d \in DWs |-> NoW],
  dblTaken = [d \in DWs |-> FALSE],
  dblW1 = [d \in DWs |-> NoW],
  dblW2 = [d \in DWs |-> NoW],
  nextDW = 1,
  ready = [op \in Ops |-> FALSE],
  cwait = [op \in Ops |-> FALSE],
  cnotif = [op \in Ops |-> FALSE],
  cvHeld = [op \in Ops |-> FALSE],
  sdres = [op \in Ops |-> FALSE],
  jpanic = [op \in Ops |-> FALSE],
  sfst = [f \in Ops |-> "WFQ"],
  slotSt = [f \in Ops |-> 0],
  qrSent = [f \in Ops |-> FALSE],
  qrWaker = [f \in Ops |-> NoW],
  dnState = [f \in Ops |-> "open"],
  susDropped = [f \in Ops |-> FALSE],
  dnWaker = [f \in Ops |-> NoW],
  parkTok = [t \in Procs |-> FALSE],
  barGen = 1,
  myBar = [t \in Procs |-> 0],
  cdone = [t \in Threads |-> FALSE],
  rv = [t \in Procs |-> 0],
  rwb = [t \in Procs |-> << >>],
  rneed = [t \in Procs |-> FALSE],
  stres = [t \in Procs |-> FALSE],
  spName = [t \in Procs |-> ""],
  dsl = [t \in Procs |-> << >>],
  atomic = [t \in Procs |-> FALSE],
  strong = [o \in Objs |-> 1],
  ppPending = [p \in Pipes |-> << >>],
  ppClosed = [p \in Pipes |-> FALSE],
  ppNotify = [p \in Pipes |-> NoW],
  ppNC = [p \in Pipes |-> NoW],
  ppBP = [p \in Pipes |-> NoW],
  ppDepth = [p \in Pipes |-> 5],
  ppAlive = [p \in Pipes |-> FALSE],
  ppHeld = [p \in Pipes |-> 0],
  inItems = [p \in Pipes |-> << >>],
  inClosed = [p \in Pipes |-> FALSE],
  inWaker = [p \in Pipes |-> NoW],
  pollFn = [p \in Pipes |-> FALSE],
  chuteFn = [p \in Pipes |-> FALSE],
  pwTaken = [j \in Ops |-> FALSE],
  nextPoll = [p \in Pipes |-> 1],
  ppItem = [j \in Ops |-> 0],
  pjLive = [j \in Ops |-> FALSE],
  ppStage = [j \in Ops |-> 0],
  h = InitH;

define {
  RECURSIVE NTR(_)
  NTR(s) == IF s = << >> THEN [found |-> 0, rest |-> << >>]
            ELSE IF qstate[Head(s)] \in {"Pending", "WaitingForPoll"} THEN [found |-> Head(s), rest |-> Tail(s)]
            ELSE NTR(Tail(s))

  \* schedule_dormant: first thread (from index i) that can be taken; pinned code skips a thread whose busy flag is locked,
  \* the repaired code (FixD2) waits for it
  RECURSIVE FirstDormant(_)
  FirstDormant(i) == IF i > Len(pthreads) THEN [kind |-> "none", p |-> "", i |-> i]
                     ELSE LET p == pthreads[i] IN
                          IF busyLocked[p] THEN (IF FixD2 THEN [kind |-> "block", p |-> p, i |-> i] ELSE FirstDormant(i + 1))
                          ELSE IF ~busy[p] THEN [kind |-> "take", p |-> p, i |-> i]
                          ELSE FirstDormant(i + 1)

  NeedsFinish(j) == jkind[j] \in {"fut", "slot", "syncbg"}
  \* the await point a suspended future is at can make progress: its gate has fired, or it is a nested future (which has to be polled)
  AwItem(j) == Aw(j)[jaw[j]]
  AwReady(j) == AwItem(j) < 0 \/ AwItem(j) \in gfired
  Unpark(tok, ts) == [t \in Procs |-> tok[t] \/ t \in ts]
  TaskOf(w) == IF w.k = "TASK" THEN {w.t} ELSE {}
  SeqSet(sq) == {sq[i] : i \in 1..Len(sq)}
  Claimable(q) == qstate[q] \in {"Pending", "Idle"}
  \* the condition variable of a blocked sync caller is alive while the caller (or a notifier that upgraded its weak reference) holds it
  CvAlive(c) == cvHeld[c] \/ \E t \in Procs : c \in SeqSet(rwb[t])
  LiveWaiters(q) == SelectSeq(wakeBlocked[q], CvAlive)
  NewPoll(p) == CHOOSE j \in PollJobs(p) : OpTab[j].n = nextPoll[p]
  CoreAlive(p) == ppAlive[p] \/ ppHeld[p] > 0
  \* the PipeContext (and with it the poll function: input stream + closure) is kept alive by untaken PipeWakers that something still
  \* holds (the input stream, or the stream core while that is alive) and by poll jobs that have not finished
  HoldsCtx(w) == w.k = "PW" /\ ~pwTaken[w.d]
  \* a phase barrier is passed when every other caller thread has finished, waits at the same barrier or is blocked on an unfired gate, and every
  \* pool thread is idle or blocked on an unfired gate (no thread is inside the scheduler's code)
  PoolIdle(p) == ~palive[p] \/ pfin[p] \/ (chanOpen[p] /\ ~busy[p] /\ ~busyLocked[p] /\ inbox[p] = 0)
  GateBlocked(t) == ~parkTok[t] /\ \E g \in Gates : t \in gthreads[g] /\ g \notin gfired
  BarrierReady(t) == /\ \A c \in Threads \ {t} : cdone[c] \/ myBar[c] = barGen \/ GateBlocked(c)
                     /\ \A p \in PoolSet : PoolIdle(p) \/ GateBlocked(p)
  CtxAlive(p) == \/ HoldsCtx(inWaker[p])
                 \/ (CoreAlive(p) /\ (HoldsCtx(ppNC[p]) \/ HoldsCtx(ppBP[p])))
                 \/ \E j \in PollJobs(p) : pjLive[j]
}

\* ---- core.schedule_thread
procedure ScheduleThread()
  variables dead = << >>, sti = 1, smax = 0; {
st_reap:     \* [threads] remove_finished_threads
  await thrHeld = "";
  dead := SelectSeq(pthreads, LAMBDA p : pfin[p]);
  pthreads := SelectSeq(pthreads, LAMBDA p : ~pfin[p]);
  if (dead = << >>) { goto st_dormant; };
st_join:     \* [join] despawn().join() of a finished (panicked) thread
  dead := Tail(dead);
  if (dead # << >>) { goto st_join; };
st_dormant:  \* [threads], or [busy] when blocked on a busy flag (FixD2)
  await (thrHeld = "" \/ thrHeld = self) /\ (thrHeld = self => ~busyLocked[pthreads[sti]]);
  with (r = FirstDormant(sti)) {
    if (r.kind = "take") { busy[r.p] := TRUE; inbox[r.p] := inbox[r.p] + 1; thrHeld := ""; stres[self] := TRUE; return; }
    else if (r.kind = "block") { thrHeld := self; sti := r.i; goto st_dormant; }
    else { thrHeld := ""; sti := 1; }
  };
st_max:      \* [maxt] the maximum is read here, before the threads lock is taken (a concurrent set_max_threads is not seen by st_spawn)
  smax := maxThreads;
st_spawn:    \* [threads] spawn_thread_if_less_than_maximum
  await thrHeld = "";
  if (Len(pthreads) < smax) {
    pthreads := Append(pthreads, PoolNames[nspawned + 1]);
    palive[PoolNames[nspawned + 1]] := TRUE;
    chanOpen[PoolNames[nspawned + 1]] := TRUE;
    nspawned := nspawned + 1;
    h := ObsSpawn(h, self, 1);
    goto st_reap;
  } else { stres[self] := FALSE; return; }
}

\* ---- core.reschedule_queue
procedure Reschedule(rq) {
rq_core:     \* [core]
  if (FixD3) { rwb[self] := LiveWaiters(rq); }
  else { cnotif := [c \in Ops |-> cnotif[c] \/ (c \in SeqSet(LiveWaiters(rq)) /\ cwait[c])]; };
  wakeBlocked[rq] := LiveWaiters(rq);
  if (qstate[rq] = "Idle" /\ jobs[rq] # << >>) { qstate[rq] := "Pending"; rneed[self] := TRUE; }
  else if (qstate[rq] = "WaitingForPoll") { rneed[self] := TRUE; }
  else { rneed[self] := FALSE; };
  if (FixD3 /\ LiveWaiters(rq) # << >>) { goto rq_notify; }
  else if (rneed[self]) { goto rq_sched; }
  else { return; };
rq_notify:   \* [ready] each blocked sync caller is notified with its 'ready' lock held
  cnotif[Head(rwb[self])] := cwait[Head(rwb[self])];
  rwb[self] := Tail(rwb[self]);
  if (Len(rwb[self]) > 0) { goto rq_notify; }
  else if (~rneed[self]) { return; };
rq_sched:    \* [sched]
  schedule := Append(schedule, rq);
  call ScheduleThread();
  return;
}

\* ---- schedule_job_desync
procedure ScheduleJob(sq, sj) {
sj_push:     \* [core]
  jobs[sq] := Append(jobs[sq], sj);
  if (qstate[sq] = "Idle") { qstate[sq] := "Pending"; }
  else if (qstate[sq] = "Panicked") { rv[self] := 2; return; }
  else { rv[self] := 0; return; };
sj_sched:    \* [sched]
  schedule := Append(schedule, sq);
  call ScheduleThread();
z_sj_ret:
  rv[self] := 0;
  return;
}

\* ---- Waker::wake for the wakers that take a lock
procedure Wake(ww) {
wk_lock:     \* [core] WakeQueue / WakeThread, [dw] DrainWaker, [dbl] DoubleWaker, [pwaker] PipeWaker
  if (ww.k = "WT") {
    if (qstate[ww.q] = "WaitingForWake") { qstate[ww.q] := "Idle"; }
    else if (qstate[ww.q] = "WaitingForUnpark") { qstate[ww.q] := "Running"; }
    else if (qstate[ww.q] = "Running") { qstate[ww.q] := "AwokenWhileRunning"; };
    parkTok[ww.t] := TRUE;
    return;
  } else if (ww.k = "WQ") {
    if (qstate[ww.q] = "WaitingForUnpark") { return; }
    else {
      if (qstate[ww.q] = "WaitingForWake") { qstate[ww.q] := "Idle"; }
      else if (qstate[ww.q] = "Running") { qstate[ww.q] := "AwokenWhileRunning"; };
      call Reschedule(ww.q);
      goto z_wk_ret;
    }
  } else if (ww.k = "PW") {
    \* PipeWaker: one-shot; schedules a poll job on the target (weak reference) or disposes of the poll function
    if (pwTaken[ww.d]) { return; }
    else {
      pwTaken[ww.d] := TRUE;
      if (strong[O(ww.d)] > 0) {
        strong[O(ww.d)] := strong[O(ww.d)] + 1;
        jkind[NewPoll(OpTab[ww.d].p)] := "fut";
        pjLive[NewPoll(OpTab[ww.d].p)] := TRUE;
        nextPoll[OpTab[ww.d].p] := nextPoll[OpTab[ww.d].p] + 1;
        call ScheduleJob(O(ww.d), NewPoll(OpTab[ww.d].p));
        goto z_pw_after;
      } else { goto pw_take; }
    }
  } else if (ww.k = "DW") {
    if (dwSt[ww.d] = "Will") {
      with (w = dwW[ww.d]) {
        dwSt[ww.d] := "Woken"; dwW[ww.d] := NoW;
        if (IsLocking(w)) { call Wake(w); return; }
        else { parkTok := Unpark(parkTok, TaskOf(w)); return; }
      }
    } else { dwSt[ww.d] := "Woken"; return; }
  } else {
    \* DoubleWaker
    if (dblTaken[ww.d]) { return; }
    else { dblTaken[ww.d] := TRUE; call Wake(dblW1[ww.d]); }
  };
z_wk_second:
  if (IsLocking(dblW2[ww.d])) { call Wake(dblW2[ww.d]); return; }
  else { parkTok := Unpark(parkTok, TaskOf(dblW2[ww.d])); return; };
z_pw_after:  \* the temporary strong reference of PipeContext::poll is released (it may be the last one)
  strong[O(ww.d)] := strong[O(ww.d)] - 1;
  if (strong[O(ww.d)] = 1 - 1) { call Sync(O(ww.d), ChuteJob(OpTab[ww.d].p, "pipe_free")); goto z_wk_ret; }
  else { return; };
pw_take:     \* [pipe] the Desync is gone: the poll function is taken and dropped on the reference chute
  chuteFn[OpTab[ww.d].p] := pollFn[OpTab[ww.d].p];
  pollFn[OpTab[ww.d].p] := FALSE;
  jkind[ChuteJob(OpTab[ww.d].p, "chute_dropfn")] := "plain";
  call ScheduleJob(Chute, ChuteJob(OpTab[ww.d].p, "chute_dropfn"));
  goto z_wk_ret;
z_wk_ret:    \* (not a tail call: PlusCal does not restore the parameters of a recursive procedure across a tail call to another procedure)
  return;
}

\* ---- the harness closure / future body of an operation, or (bown = 0) the program of a caller thread
procedure RunOps(rsq, bown, bwk)
  variables bi = 0, bcur = 0, bw = NoW, bsp = << >>; {
rb_step:     \* [begin] / [body] / [ret] / [resumed]
  if (bown # 0 /\ jaw[bown] > 0) {
    \* resumed after the awaited gate fired: go on to the next await; a nested future is polled now
    if (AwItem(bown) < 0) { goto z_pollaw; };
  } else if (bi < Len(rsq)) {
    bcur := rsq[bi + 1];
    h := LET hc == ObsCall(IF bi > 0 THEN ObsRet(h, self, rsq[bi], rv[self]) ELSE h, self, rsq[bi + 1])
         IN  IF K(rsq[bi + 1]) = "try_sync"
             THEN ObsTryRest(hc, rsq[bi + 1], qstate[O(rsq[bi + 1])] = "Idle" /\ jobs[O(rsq[bi + 1])] = << >> /\ wakeBlocked[O(rsq[bi + 1])] = << >>)
             ELSE hc;
    bi := bi + 1;
    goto z_dispatch;
  } else {
    if (bi > 0) { h := ObsRet(h, self, rsq[bi], rv[self]); };
    bi := bi + 1;
  };
z_finish:
  \* end of the nested operations: block, awaits, panic, end
  if (bown = 0) { return; }
  else if (OpTab[bown].block # 0 /\ OpTab[bown].block \notin gfired) {
    gthreads[OpTab[bown].block] := gthreads[OpTab[bown].block] \cup {self};
    goto rb_block;
  }
  else if (jaw[bown] < Len(Aw(bown))) {
    with (k = jaw[bown] + 1) {
      jaw[bown] := k;
      if (Aw(bown)[k] < 0 \/ Aw(bown)[k] \in gfired) { bi := Len(rsq) + 1; goto rb_step; }
      else { gwaker[Aw(bown)[k]] := bwk; gwhist[Aw(bown)[k]] := Append(gwhist[Aw(bown)[k]], bwk); rv[self] := 5; return; }
    }
  }
  else if (OpTab[bown].panic) {
    h := ObsPanic(h, self, bown);
    jpanic[bown] := TRUE;
    rv[self] := 9;
    return;
  }
  else {
    h := ObsEnd(h, self, bown);
    if (jkind[bown] = "syncdrain") { sdres[bown] := TRUE; };
    rv[self] := 0;
    return;
  };
z_pollaw:    \* a nested await: the inner future is polled with the outer context's waker
  if (K(0 - AwItem(bown)) = "fsync") { call PollSync(0 - AwItem(bown), bwk); } else { call PollFuture(0 - AwItem(bown), bwk); };
z_pollaw_after:
  if (rv[self] = 5) { return; }
  else if (rv[self] \in {0, 3, 4}) { h := ObsResolved(h, self, 0 - AwItem(bown), rv[self]); goto z_finish; }
  else { goto z_finish; };
z_drop_ret:  \* Drop for Desync on a thread that is already unwinding uses sync_no_panic: a panicked queue is left alone (the value leaks), no second panic
  if (rv[self] = 2 /\ OpTab[bcur].then = "unwinding") { rv[self] := 0; };
  goto rb_step;
rb_bar:      \* [barrier] phase barrier of the scenario: passed together, once every other thread is finished or waits at it and the pool is idle
  await myBar[self] < barGen \/ BarrierReady(self);
  if (myBar[self] = barGen) { barGen := barGen + 1; };
  rv[self] := 0;
  goto rb_step;
rb_block:    \* [park] body blocks its thread until the gate fires
  await parkTok[self];
  parkTok[self] := FALSE;
  goto z_finish;
z_dispatch:
  if (K(bcur) = "desync") { jkind[bcur] := "plain"; call ScheduleJob(O(bcur), bcur); goto rb_step; }
  else if (K(bcur) = "sync") { call Sync(O(bcur), bcur); goto rb_step; }
  else if (K(bcur) = "drop_obj") {
    strong[O(bcur)] := strong[O(bcur)] - 1;
    if (strong[O(bcur)] = 1 - 1) { call Sync(O(bcur), bcur); goto z_drop_ret; }
    else { rv[self] := 0; goto rb_step; }
  }
  else if (K(bcur) \in {"pipe", "pipe_in"}) { call PipeCreate(bcur); goto rb_step; }
  else if (K(bcur) \in {"send", "close_input"}) {
    h := IF K(bcur) = "send" THEN ObsSent(h, OpTab[bcur].p, OpTab[bcur].n) ELSE ObsInClosed(h, OpTab[bcur].p);
    if (K(bcur) = "send") { inItems[OpTab[bcur].p] := Append(inItems[OpTab[bcur].p], OpTab[bcur].n); }
    else { inClosed[OpTab[bcur].p] := TRUE; };
    bw := inWaker[OpTab[bcur].p];
    inWaker[OpTab[bcur].p] := NoW;
    rv[self] := 0;
    if (IsLocking(bw)) { call Wake(bw); goto rb_step; }
    else { goto rb_step; }
  }
  else if (K(bcur) = "next") { call PipeNext(OpTab[bcur].p); goto rb_step; }
  else if (K(bcur) = "drop_stream") { h := PFlag(h, OpTab[bcur].p, "stream_dropped"); call PipeDrop(OpTab[bcur].p); goto rb_step; }
  else if (K(bcur) = "set_depth") { goto pp_setdepth; }
  else if (K(bcur) = "try_sync") { call TrySync(O(bcur), bcur); goto rb_step; }
  else if (K(bcur) \in {"fdesync", "after"}) { jkind[bcur] := "fut"; call ScheduleJob(O(bcur), bcur); goto z_then; }
  else if (K(bcur) = "suspend") { jkind[bcur] := "susp"; call ScheduleJob(O(bcur), bcur); goto z_then; }
  else if (K(bcur) = "fsync") { jkind[bcur] := "slot"; call ScheduleJob(O(bcur), bcur); goto z_then; }
  else if (K(bcur) = "dropf") { call DropFuture(OpTab[bcur].f); goto rb_step; }
  else if (K(bcur) = "barrier") { myBar[self] := barGen; goto rb_bar; }
  else if (K(bcur) \in {"fire", "resume", "drop_resumer"}) {
    h := IF K(bcur) = "fire" THEN ObsFire(h, GateOfOp(bcur)) ELSE ObsResume(h, self, OpTab[bcur].f);
    gfired := gfired \cup {GateOfOp(bcur)};
    bw := gwaker[GateOfOp(bcur)];
    parkTok := Unpark(parkTok, gthreads[GateOfOp(bcur)] \cup TaskOf(gwaker[GateOfOp(bcur)]));
    gwaker[GateOfOp(bcur)] := NoW;
    rv[self] := 0;
    if (IsLocking(bw)) { call Wake(bw); goto rb_step; }
    else { goto rb_step; }
  }
  else if (K(bcur) = "await") { call Await(OpTab[bcur].f); goto rb_step; }
  else if (K(bcur) = "poll") {
    if (K(OpTab[bcur].f) = "fsync") { call PollSync(OpTab[bcur].f, NoW); goto z_polled; }
    else { call PollFuture(OpTab[bcur].f, NoW); goto z_polled; }
  }
  else if (K(bcur) = "wait_sync") { call WaitSync(OpTab[bcur].f, bcur); goto rb_step; }
  else if (K(bcur) = "spur") { bsp := gwhist[OpTab[bcur].g]; rv[self] := 0; goto z_spur; }
  else if (K(bcur) = "block_on") {
    \* the harness thread waits for an external event (used to order operations of different threads)
    rv[self] := 0;
    if (OpTab[bcur].g \in gfired) { goto rb_step; }
    else { gthreads[OpTab[bcur].g] := gthreads[OpTab[bcur].g] \cup {self}; goto rb_wait; }
  }
  else if (K(bcur) = "set_max") {
    \* (the real set_max_threads counts from the call for the monitors: it goes on to wake and spawn threads under the new maximum)
    if (OpTab[bcur].then = "real") { h := ObsSetMax(h, OpTab[bcur].n); };
    goto mx_set;
  }
  else if (K(bcur) = "despawn") { call Despawn(); goto rb_step; }
  else if (K(bcur) = "spawn_thread") {
    \* the thread is created (and named) before the threads lock is taken
    h := ObsSpawn(h, self, 1);
    spName[self] := PoolNames[nspawned + 1];
    palive[PoolNames[nspawned + 1]] := TRUE;
    chanOpen[PoolNames[nspawned + 1]] := TRUE;
    nspawned := nspawned + 1;
    goto sp_push;
  }
  else { rv[self] := 0; goto rb_step; };
z_then:
  if (rv[self] = 0 /\ OpTab[bcur].then = "await") { call Await(bcur); goto rb_step; }
  else if (rv[self] = 0 /\ OpTab[bcur].then = "drop" /\ K(bcur) = "fsync") { call DropFuture(bcur); goto rb_step; }
  else { goto rb_step; };
z_polled:
  if (rv[self] \in {0, 3, 4}) { h := ObsResolved(h, self, OpTab[bcur].f, rv[self]); };
  goto rb_step;
pp_setdepth: \* [pcore]
  ppDepth[OpTab[bcur].p] := OpTab[bcur].n;
  rv[self] := 0;
  goto rb_step;
z_spur:      \* the adversary invokes every waker the event source was ever given, one after the other
  if (bsp = << >>) { goto rb_step; }
  else {
    bw := Head(bsp);
    bsp := Tail(bsp);
    if (IsLocking(bw)) { call Wake(bw); goto z_spur; }
    else { parkTok := Unpark(parkTok, TaskOf(bw)); goto z_spur; }
  };
rb_wait:     \* [park]
  await parkTok[self];
  parkTok[self] := FALSE;
  if (OpTab[bcur].g \in gfired) { goto rb_step; }
  else { gthreads[OpTab[bcur].g] := gthreads[OpTab[bcur].g] \cup {self}; goto rb_wait; };
sp_push:     \* [threads] Scheduler::spawn_thread: one more pool thread, whatever the maximum is
  await thrHeld = "";
  pthreads := Append(pthreads, spName[self]);
  rv[self] := 0;
  goto rb_step;
mx_set:      \* [maxt] set_max_threads (or the accessor that only stores the value)
  maxThreads := OpTab[bcur].n;
  if (OpTab[bcur].then # "real") { h := ObsSetMax(h, OpTab[bcur].n); rv[self] := 0; goto rb_step; };
z_mx_loop:   \* set_max_threads: "schedule as many threads as we can": while schedule_thread() {}
  call ScheduleThread();
z_mx_chk:
  if (stres[self]) { goto z_mx_loop; }
  else { rv[self] := 0; goto rb_step; };
}

\* ---- ScheduledJob::run of job jj of queue jq with waker jwk; rv: 0 = Ready, 5 = Pending, 9 = panicked
procedure RunJob(jq, jj, jwk) {
z_rj:
  if (K(jj) \in {"desync", "sync", "try_sync"}) { h := ObsStart(h, self, jj); call RunOps(Body(jj), jj, jwk); goto z_rj_ret; }
  else if (K(jj) = "fdesync") {
    if (jaw[jj] = 0) { h := ObsStart(h, self, jj); call RunOps(Body(jj), jj, jwk); goto z_rj_ret; }
    else if (AwReady(jj)) { call RunOps(Body(jj), jj, jwk); goto z_rj_ret; }
    else { gwaker[AwItem(jj)] := jwk; gwhist[AwItem(jj)] := Append(gwhist[AwItem(jj)], jwk); rv[self] := 5; return; }
  }
  else if (K(jj) = "after") {
    if (OpTab[jj].g \in gfired) { h := ObsStart(h, self, jj); call RunOps(Body(jj), jj, jwk); goto z_rj_ret; }
    else { gwaker[OpTab[jj].g] := jwk; gwhist[OpTab[jj].g] := Append(gwhist[OpTab[jj].g], jwk); rv[self] := 5; return; }
  }
  else if (K(jj) \in {"pipe", "pipe_in"}) {
    \* the empty closure of the sync() that ends pipe()/pipe_in()
    if (jkind[jj] = "syncdrain") { sdres[jj] := TRUE; };
    rv[self] := 0; return;
  }
  else if (K(jj) = "pipepoll") {
    \* a poll job suspended in the processing future of an item is resumed only once its gate has fired
    if (ppStage[jj] = 1 /\ OpTab[PipeOp(OpTab[jj].p)].g \notin gfired) {
      gwaker[OpTab[PipeOp(OpTab[jj].p)].g] := jwk;
      gwhist[OpTab[PipeOp(OpTab[jj].p)].g] := Append(gwhist[OpTab[PipeOp(OpTab[jj].p)].g], jwk);
      rv[self] := 5; return;
    } else { call PipePoll(jj, OpTab[jj].p, jwk); goto z_pp_gc; }
  }
  else if (K(jj) = "chute_dropfn") {
    if (chuteFn[OpTab[jj].p]) { h := PFlag(PFlag(h, OpTab[jj].p, "in_dropped"), OpTab[jj].p, "closure_dropped"); chuteFn[OpTab[jj].p] := FALSE; };
    rv[self] := 0; return;
  }
  else if (K(jj) = "chute_release") {
    \* the closure that releases the pipe's strong reference to its Desync (it may be the last one)
    strong[O(PipeOp(OpTab[jj].p))] := strong[O(PipeOp(OpTab[jj].p))] - 1;
    if (strong[O(PipeOp(OpTab[jj].p))] = 1 - 1) { call Sync(O(PipeOp(OpTab[jj].p)), ChuteJob(OpTab[jj].p, "pipe_free")); goto z_rj_ok; }
    else { rv[self] := 0; return; }
  }
  else if (K(jj) \in {"drop_obj", "pipe_free"}) {
    h := ObsFreed(h, O(jj));
    if (jkind[jj] = "syncdrain") { sdres[jj] := TRUE; };
    rv[self] := 0; return;
  }
  else if (K(jj) = "wait_sync") { goto ws_take; }
  else if (K(jj) = "fsync") {
    \* the slot job of future_sync: signal queue_ready, then wait for task_finished
    if (slotSt[jj] = 0) {
      slotSt[jj] := 1; qrSent[jj] := TRUE;
      if (IsLocking(qrWaker[jj])) { call Wake(qrWaker[jj]); goto z_slot2; }
      else { parkTok := Unpark(parkTok, TaskOf(qrWaker[jj])); goto z_slot2; }
    } else { goto z_slot2; }
  }
  else {
    \* suspend
    if (jaw[jj] = 0) { goto sus_signal; }
    else if (OpTab[jj].g \in gfired) { goto sus_inner; }
    else { gwaker[OpTab[jj].g] := jwk; rv[self] := 5; return; }
  };
z_rj_ret:
  return;
z_rj_ok:
  rv[self] := 0;
  return;
z_pp_gc:     \* a finished poll job may have held the last reference to the stream core / the pipe's context
  if (pollFn[OpTab[jj].p] /\ rv[self] = 0 /\ ~(\/ HoldsCtx(inWaker[OpTab[jj].p])
                                               \/ (CoreAlive(OpTab[jj].p) /\ (HoldsCtx(ppNC[OpTab[jj].p]) \/ HoldsCtx(ppBP[OpTab[jj].p])))
                                               \/ \E j \in PollJobs(OpTab[jj].p) \ {jj} : pjLive[j])) {
    pollFn[OpTab[jj].p] := FALSE;
    h := PFlag(PFlag(h, OpTab[jj].p, "in_dropped"), OpTab[jj].p, "closure_dropped");
  };
  if (rv[self] # 5) { pjLive[jj] := FALSE; };
  return;
z_slot2:
  if (dnState[jj] # "open") { rv[self] := 0; return; }
  else { dnWaker[jj] := jwk; rv[self] := 5; return; };
sus_signal:  \* [fres] the suspend job signals the future returned by suspend()
  with (w = fwaker[jj]) {
    fres[jj] := "some"; fwaker[jj] := NoW;
    if (IsLocking(w)) { call Wake(w); }
    else { parkTok := Unpark(parkTok, TaskOf(w)); }
  };
sus_sigdrop: \* [fres] (if the future was dropped before, the signaller held the last reference to the result slot: the resumer is dropped here)
  jaw[jj] := 1;
  if (susDropped[jj]) { gfired := gfired \cup {OpTab[jj].g}; fres[jj] := "taken"; }
  else if (OpTab[jj].g \notin gfired) { gwaker[OpTab[jj].g] := jwk; rv[self] := 5; return; };
sus_inner:   \* [fres] the (detached) future of the suspend job itself is signalled
  skip;
sus_innerdrop: \* [fres]
  rv[self] := 0;
  return;
ws_take:     \* [fres] the closure of SchedulerFuture::sync takes the result
  if (fres[OpTab[jj].f] = "some") { fres[OpTab[jj].f] := "taken"; sdres[jj] := TRUE; rv[self] := 0; return; }
  else { sdres[jj] := TRUE; rv[self] := 0; return; }
}

\* ---- things a finished (or panicked) job does when it is dropped, before its runner takes its next lock
procedure FinishJob(fj) {
fj_lock:     \* [fres] SchedulerFutureSignaller::signal (or its drop, cancelling), [ready] UnsafeJob::drop
  if (jkind[fj] \in {"fut", "slot"}) {
    with (w = fwaker[fj]) {
      fres[fj] := IF jpanic[fj] /\ jkind[fj] = "fut" THEN "cancelled" ELSE "some"; fwaker[fj] := NoW;
      if (IsLocking(w)) { call Wake(w); }
      else { parkTok := Unpark(parkTok, TaskOf(w)); }
    }
  } else {
    ready[fj] := TRUE;
    cnotif[fj] := cwait[fj];
    return;
  };
z_fj_chk:
  if (jpanic[fj] /\ jkind[fj] = "fut") { return; };
fj_sigdrop:  \* [fres] the signaller is dropped after signalling: the result is already set
  return;
}

\* ---- JobQueue::drain on a pool thread
procedure PoolDrain(dq)
  variables dj = 0; {
pd_deq:      \* [core] dequeue
  if (qstate[dq] \in Waiting \/ jobs[dq] = << >>) { goto pd_end; }
  else {
    dj := Head(jobs[dq]); jobs[dq] := Tail(jobs[dq]);
    call RunJob(dq, dj, WQ(dq));
  };
z_pd_after:
  if (rv[self] = 5) { goto pd_requeue; }
  else if (rv[self] = 9) { if (NeedsFinish(dj)) { call FinishJob(dj); goto pd_panic; } else { goto pd_panic; } }
  else if (NeedsFinish(dj)) { call FinishJob(dj); goto pd_deq; }
  else { goto pd_deq; };
pd_requeue:  \* [core]
  jobs[dq] := << dj >> \o jobs[dq];
pd_park:     \* [core]
  if (qstate[dq] = "Running") { qstate[dq] := "WaitingForWake"; rv[self] := 0; return; }
  else if (qstate[dq] = "AwokenWhileRunning") { qstate[dq] := "Running"; goto pd_deq; }
  else { goto pd_deq; };
pd_end:      \* [core]
  if (jobs[dq] = << >>) { if (qstate[dq] \in RunningStates) { qstate[dq] := "Idle"; }; rv[self] := 0; return; }
  else if (qstate[dq] = "Pending") { rv[self] := 0; return; }
  else { goto pd_deq; };
pd_panic:    \* [core] ActiveQueue::drop while panicking
  qstate[dq] := "Panicked";
  rv[self] := 9;
  return;
}

\* ---- JobQueue::run_one_job_now, looping as its callers do (sync_drain: until the result is there; sync_background: one job)
procedure RunOne(oq, oop, omode)
  variables oj = 0; {
ro_deq:      \* [core] dequeue
  if (qstate[oq] \in Waiting \/ jobs[oq] = << >>) {
    if (omode = "sd") { goto ro_deq; } else { rv[self] := 0; return; }
  } else {
    oj := Head(jobs[oq]); jobs[oq] := Tail(jobs[oq]);
    call RunJob(oq, oj, WT(oq, self));
  };
z_ro_after:
  if (rv[self] = 5) { goto ro_park; }
  else if (rv[self] = 9) { if (NeedsFinish(oj)) { call FinishJob(oj); goto z_ro_panic; } else { goto z_ro_panic; } }
  else if (NeedsFinish(oj)) { call FinishJob(oj); };
z_ro_done:
  if (omode = "sd" /\ ~sdres[oop]) { goto ro_deq; } else { rv[self] := 0; return; };
z_ro_panic:
  rv[self] := 9;
  return;
ro_park:     \* [core]
  if (qstate[oq] = "AwokenWhileRunning") {
    qstate[oq] := "Running";
    call RunJob(oq, oj, WT(oq, self));
    goto z_ro_after;
  } else {
    assert qstate[oq] = "Running";
    qstate[oq] := "WaitingForUnpark";
  };
ro_check:    \* [core]
  if (qstate[oq] \in {"Running", "AwokenWhileRunning"}) {
    call RunJob(oq, oj, WT(oq, self));
    goto z_ro_after;
  } else { assert qstate[oq] = "WaitingForUnpark"; };
ro_parked:   \* [park]
  await parkTok[self];
  parkTok[self] := FALSE;
  h := ObsBlocked(h, self);
  goto ro_check;
}

\* ---- sync (also Desync::drop, whose closure frees the value)
procedure Sync(yq, yop)
  variables yclaimed = FALSE;
{
sy_decide:   \* [core]
  if (qstate[yq] \in {"Running", "WaitingForWake", "WaitingForUnpark", "WaitingForPoll", "AwokenWhileRunning"}) { goto sb_reg; }
  else if (qstate[yq] = "Panicked") { rv[self] := 2; return; }
  else if (qstate[yq] = "Pending") { qstate[yq] := "Running"; goto sd_push; }
  else {
    qstate[yq] := "Running";
    if (jobs[yq] = << >>) { jkind[yop] := "imm"; call RunJob(yq, yop, NoW); }
    else { goto sd_push; }
  };
z_si_chk:
  if (rv[self] = 9) { goto sy_panic; };
si_idle:     \* [core]
  qstate[yq] := "Idle";
  call Reschedule(yq);
z_si_ret:
  if (Unw(yop)) { goto sy_unw; }
  else { rv[self] := 0; return; };
sy_unw:      \* [core] the ActiveQueue guard of sync_immediate/sync_drain is dropped on a thread that is unwinding: it marks the queue Panicked
  qstate[yq] := "Panicked";
  rv[self] := 0;
  return;
sd_push:     \* [core]
  jkind[yop] := "syncdrain";
  jobs[yq] := Append(jobs[yq], yop);
  call RunOne(yq, yop, "sd");
z_sd_chk:
  if (rv[self] = 9) { goto sy_panic; };
sd_idle:     \* [core]
  qstate[yq] := "Idle";
  call Reschedule(yq);
  goto z_si_ret;
sb_reg:      \* [core]
  wakeBlocked[yq] := Append(wakeBlocked[yq], yop);
  cvHeld[yop] := TRUE;
sb_push:     \* [core]
  jkind[yop] := "syncbg";
  jobs[yq] := Append(jobs[yq], yop);
  if (qstate[yq] = "Idle") { call Reschedule(yq); };
sb_lock:     \* [ready]
  \* (coming back from a claimed drain on an unwinding thread, the ActiveQueue guard is dropped here, with 'ready' held: the queue is marked Panicked)
  if (yclaimed /\ Unw(yop)) { qstate[yq] := "Panicked"; };
  yclaimed := FALSE;
z_sb_lock2:
  if (ready[yop]) { cvHeld[yop] := FALSE; goto sb_fin; }
  else if (FixD3 /\ Claimable(yq)) {
    \* repaired code: the queue is claimed with the 'ready' lock held, before waiting
    qstate[yq] := "Running";
    schedule := SelectSeq(schedule, LAMBDA x : x # yq);
    yclaimed := TRUE;
    goto sb_chk;
  }
  else { cwait[yop] := TRUE; cnotif[yop] := FALSE; goto sb_wait; };
sb_claim:    \* [sched] claim_pending_queue
  if (qstate[yq] \in {"Pending", "Idle"}) {
    qstate[yq] := "Running";
    schedule := SelectSeq(schedule, LAMBDA x : x # yq);
    yclaimed := TRUE;
  } else { goto sb_lock; };
sb_chk:      \* [ready]
  if (~ready[yop]) { call RunOne(yq, yop, "sb"); goto z_sb_chk; };
sb_idle:     \* [core]
  qstate[yq] := "Idle";
  call Reschedule(yq);
  goto sb_lock;
z_sb_chk:
  if (rv[self] = 9) { cvHeld[yop] := (yop \in SeqSet(jobs[yq])); if (FixD6) { goto sy_panic; } else { rv[self] := 2; return; } }
  else { goto sb_chk; };
sb_wait:     \* [wait]
  await cnotif[yop];
  h := ObsBlocked(h, self);
  if (ready[yop]) { cwait[yop] := FALSE; cnotif[yop] := FALSE; cvHeld[yop] := FALSE; goto sb_fin; }
  else if (~FixD3) { cwait[yop] := FALSE; cnotif[yop] := FALSE; goto sb_claim; }
  else if (Claimable(yq)) {
    cwait[yop] := FALSE; cnotif[yop] := FALSE;
    qstate[yq] := "Running";
    schedule := SelectSeq(schedule, LAMBDA x : x # yq);
    yclaimed := TRUE;
    goto sb_chk;
  }
  else { cnotif[yop] := FALSE; goto sb_wait; };
sb_fin:      \* [core] (the caller's own reference to the condition variable was dropped before this lock is taken)
  wakeBlocked[yq] := SelectSeq(wakeBlocked[yq], LAMBDA x : (x # yop /\ CvAlive(x)) \/ (x = yop /\ \E t \in Procs : yop \in SeqSet(rwb[t])));
  rv[self] := 0;
  return;
sy_panic:    \* [core] ActiveQueue::drop while panicking
  qstate[yq] := "Panicked";
  rv[self] := 2;
  return;
}

\* ---- try_sync
procedure TrySync(tq, top) {
ts_decide:   \* [core]
  if (qstate[tq] = "Idle") {
    if (jobs[tq] # << >>) {
      if (~FixD1) { qstate[tq] := "Running"; };
      rv[self] := 1; return;
    } else {
      qstate[tq] := "Running"; jkind[top] := "imm";
      call RunJob(tq, top, NoW);
    }
  }
  else if (qstate[tq] = "Panicked") { rv[self] := 2; return; }
  else { rv[self] := 1; return; };
z_ts_chk:
  if (rv[self] = 9) { goto ts_panic; };
ts_idle:     \* [core]
  qstate[tq] := "Idle";
  call Reschedule(tq);
z_ts_ret:
  rv[self] := 0;
  return;
ts_panic:    \* [core]
  qstate[tq] := "Panicked";
  rv[self] := 2;
  return;
}

\* ---- block_on(future of op af) by the task running on this thread
procedure Await(af) {
z_aw_poll:
  if (K(af) = "fsync") { call PollSync(af, TASK(self)); } else { call PollFuture(af, TASK(self)); };
z_aw_after:
  if (rv[self] = 5) { goto aw_park; }
  else { if (rv[self] \in {0, 3, 4}) { h := ObsResolved(h, self, af, rv[self]); }; return; };
aw_park:     \* [park]
  await parkTok[self];
  parkTok[self] := FALSE;
  goto z_aw_poll;
}

\* ---- SchedulerFuture::sync of the future of op wf (the calling op is wop)
procedure WaitSync(wf, wop) {
fs_take:     \* [fres]
  if (fres[wf] = "some") { fres[wf] := "taken"; h := ObsResolved(h, self, wf, 0); rv[self] := 0; return; }
  else if (fres[wf] = "cancelled") { fres[wf] := "taken"; h := ObsResolved(h, self, wf, 4); rv[self] := 4; return; }
  else { call Sync(O(wf), wop); };
z_fs_after:
  if (rv[self] = 0) { h := ObsResolved(h, self, wf, 0); };
  return;
}

\* ---- SyncFuture::poll (the future returned by future_sync) in context sctx
procedure PollSync(sf, sctx) {
z_ps:
  if (sfst[sf] = "WFQ") { call PollFuture(sf, sctx); }
  else if (sfst[sf] = "WFF") {
    if (jaw[sf] > 0 /\ ~AwReady(sf)) { gwaker[AwItem(sf)] := sctx; gwhist[AwItem(sf)] := Append(gwhist[AwItem(sf)], sctx); rv[self] := 5; return; }
    else { call RunOps(Body(sf), sf, sctx); goto z_ps_f; }
  }
  else if (sfst[sf] = "WFS") { goto z_ps_s; }
  else { rv[self] := 4; return; };
z_ps_q:
  if (rv[self] \in {2, 4}) { sfst[sf] := "Done"; dnState[sf] := "sent"; return; }
  else if (qrSent[sf]) {
    \* the queue has reached the slot: create the user's future and poll it
    sfst[sf] := "WFF";
    h := ObsStart(h, self, sf);
    call RunOps(Body(sf), sf, sctx);
  }
  else { qrWaker[sf] := sctx; rv[self] := 5; return; };
z_ps_f:
  if (rv[self] = 5) { return; }
  else if (rv[self] = 9) {
    \* the user future panicked in the polling task: the SyncFuture is dropped while unwinding (nothing marks the queue)
    sfst[sf] := "Done"; dnState[sf] := "dropped";
    if (IsLocking(dnWaker[sf])) { call Wake(dnWaker[sf]); goto z_ps_panic; }
    else { parkTok := Unpark(parkTok, TaskOf(dnWaker[sf])); goto z_ps_panic; }
  }
  else {
    sfst[sf] := "WFS"; dnState[sf] := "sent";
    if (IsLocking(dnWaker[sf])) { call Wake(dnWaker[sf]); }
    else { parkTok := Unpark(parkTok, TaskOf(dnWaker[sf])); }
  };
z_ps_s:
  call PollFuture(sf, sctx);
z_ps_s2:
  if (rv[self] = 5) { return; }
  else { sfst[sf] := "Done"; rv[self] := 0; return; };
z_ps_panic:
  rv[self] := 2;
  return;
}

\* ---- dropping a stored future (a SchedulerFuture just goes away; a SyncFuture cancels its operation)
procedure DropFuture(xf) {
z_df:
  if (K(xf) = "suspend") {
    \* the future returned by suspend() is dropped: a resumer that is (or will be) stored in its result slot is dropped with the slot, which
    \* cancels the resume channel, i.e. resumes the queue
    \* (if the future had already resolved, the caller holds the resumer itself: dropping that is drop_resumer)
    h := IF fres[xf] = "taken" THEN ObsResume(h, self, xf) ELSE ObsDropped(h, self, xf);
    susDropped[xf] := TRUE;
    if (fres[xf] \in {"some", "taken"}) {
      fres[xf] := "taken";
      gfired := gfired \cup {OpTab[xf].g};
      parkTok := Unpark(parkTok, TaskOf(gwaker[OpTab[xf].g]));
      if (IsLocking(gwaker[OpTab[xf].g])) { call Wake(gwaker[OpTab[xf].g]); goto z_df_sus; }
      else { goto z_df_sus; }
    } else { rv[self] := 0; return; }
  }
  else if (K(xf) # "fsync" \/ sfst[xf] = "Done") { h := ObsDropped(h, self, xf); rv[self] := 0; return; }
  else {
    \* the user future (if it was started) is destroyed first, then the completion sender
    h := IF sfst[xf] = "WFF" THEN ObsEnd(ObsDropped(h, self, xf), self, xf) ELSE ObsDropped(h, self, xf);
    sfst[xf] := "Done";
    if (dnState[xf] = "open") {
      dnState[xf] := "dropped";
      if (IsLocking(dnWaker[xf])) { call Wake(dnWaker[xf]); }
    }
  };
z_df2:
  rv[self] := 0;
  return;
z_df_sus:
  gwaker[OpTab[xf].g] := NoW;
  rv[self] := 0;
  return;
}

\* ---- pipe() / pipe_in(): the first poll job is scheduled, then an empty sync() waits for it
procedure PipeCreate(cop) {
z_pcr1:
  pollFn[OpTab[cop].p] := TRUE;
  strong[O(cop)] := strong[O(cop)] + (IF K(cop) = "pipe" THEN 2 ELSE 1);
  ppAlive[OpTab[cop].p] := (K(cop) = "pipe");
  jkind[NewPoll(OpTab[cop].p)] := "fut";
  pjLive[NewPoll(OpTab[cop].p)] := TRUE;
  nextPoll[OpTab[cop].p] := nextPoll[OpTab[cop].p] + 1;
  call ScheduleJob(O(cop), NewPoll(OpTab[cop].p));
z_pcr2:
  strong[O(cop)] := strong[O(cop)] - 1;
  call Sync(O(cop), cop);
z_pcr3:
  return;
}

\* ---- the poll job of a pipe: PipeContext::poll's future_desync job running the poll function
procedure PipePoll(kj, pp, pwk) {
z_pp_entry:
  if (ppStage[kj] = 1) { goto pp_resumed; };
pp_fn:       \* [pipe] lock the poll function
  if (~pollFn[pp]) { rv[self] := 0; return; }
  else if (K(PipeOp(pp)) = "pipe_in") { goto pi_in; }
  else if (~CoreAlive(pp)) { goto pp_dealloc; }
  else { ppHeld[pp] := ppHeld[pp] + 1; };
pp_bp:       \* [pcore] back-pressure / closed check
  if (Len(ppPending[pp]) >= ppDepth[pp]) { ppBP[pp] := PW(kj); ppHeld[pp] := ppHeld[pp] - 1; rv[self] := 0; return; }
  else if (ppClosed[pp]) { goto pp_closed; };
pp_clear:    \* [pcore] clear the stream-closed notifier (repaired code: stop if the output stream was dropped meanwhile)
  if (FixD5 /\ ppClosed[pp]) { ppHeld[pp] := ppHeld[pp] - 1; goto pp_dealloc; }
  else { ppNC[pp] := NoW; };
pp_in:       \* [pipe] poll the input stream: first look
  if (inItems[pp] # << >>) { ppItem[kj] := Head(inItems[pp]); inItems[pp] := Tail(inItems[pp]); goto pp_proc; }
  else if (inClosed[pp]) { h := PFlag(h, pp, "in_end"); goto pp_end; };
pp_in2:      \* [inpoll] the stream registers the waker and looks again (an item or the end may have arrived meanwhile)
  inWaker[pp] := PW(kj);
  if (inItems[pp] # << >>) { ppItem[kj] := Head(inItems[pp]); inItems[pp] := Tail(inItems[pp]); goto pp_proc; }
  else if (inClosed[pp]) { h := PFlag(h, pp, "in_end"); goto pp_end; };
pp_reg:      \* [pcore] register to be woken when the output stream is dropped
  if (FixD5 /\ ppClosed[pp]) { ppHeld[pp] := ppHeld[pp] - 1; goto pp_dealloc; }
  else {
    ppNC[pp] := PW(kj);
    ppHeld[pp] := ppHeld[pp] - 1;
    rv[self] := 0;
    return;
  };
pp_end:      \* [pcore] the input has ended
  ppClosed[pp] := TRUE;
  parkTok := Unpark(parkTok, TaskOf(ppNotify[pp]));
  ppNotify[pp] := NoW;
  ppHeld[pp] := ppHeld[pp] - 1;
  goto pp_dealloc;
pp_closed:   \* [pcore] the output stream was closed
  parkTok := Unpark(parkTok, TaskOf(ppNotify[pp]));
  ppNotify[pp] := NoW;
  ppHeld[pp] := ppHeld[pp] - 1;
  goto pp_dealloc;
pp_proc:     \* [pipe] lock the processing function and call it
  h := ObsProcStart(h, self, pp, ppItem[kj]);
pp_body:     \* [body] the processing future may await an external event
  if (OpTab[PipeOp(pp)].g # 0 /\ OpTab[PipeOp(pp)].g \notin gfired) {
    gwaker[OpTab[PipeOp(pp)].g] := pwk;
    gwhist[OpTab[PipeOp(pp)].g] := Append(gwhist[OpTab[PipeOp(pp)].g], pwk);
    ppStage[kj] := 1;
    rv[self] := 5;
    return;
  } else if (OpTab[PipeOp(pp)].g # 0) { ppStage[kj] := 1; goto pp_resumed; }
  else {
    h := ObsProcEnd(h, self, pp, ppItem[kj]);
    if (K(PipeOp(pp)) = "pipe_in") { goto pi_in; } else { goto pp_push; }
  };
pp_resumed:  \* [resumed]
  ppStage[kj] := 0;
  h := ObsProcEnd(h, self, pp, ppItem[kj]);
  if (K(PipeOp(pp)) = "pipe_in") { goto pi_in; };
pp_push:     \* [pcore] push the output and wake the consumer
  ppPending[pp] := Append(ppPending[pp], 10 * ppItem[kj]);
  parkTok := Unpark(parkTok, TaskOf(ppNotify[pp]));
  ppNotify[pp] := NoW;
  goto pp_clear;
pi_in:       \* [pipe] pipe_in: poll the input stream: first look
  if (inItems[pp] # << >>) { ppItem[kj] := Head(inItems[pp]); inItems[pp] := Tail(inItems[pp]); goto pp_proc; }
  else if (inClosed[pp]) { h := PFlag(h, pp, "in_end"); goto pp_dealloc; };
pi_in2:      \* [inpoll] register the waker and look again
  inWaker[pp] := PW(kj);
  if (inItems[pp] # << >>) { ppItem[kj] := Head(inItems[pp]); inItems[pp] := Tail(inItems[pp]); goto pp_proc; }
  else if (inClosed[pp]) { h := PFlag(h, pp, "in_end"); goto pp_dealloc; }
  else { rv[self] := 0; return; };
pp_dealloc:  \* [pipe] stop polling: the poll function (input stream and closure) is dropped
  if (pollFn[pp]) { h := PFlag(PFlag(h, pp, "in_dropped"), pp, "closure_dropped"); };
  pollFn[pp] := FALSE;
  rv[self] := 0;
  return;
}

\* ---- PipeStream::poll_next driven by block_on
procedure PipeNext(np)
  variables nbp = NoW, nres = 0; {
cn_poll:     \* [pcore]
  nbp := ppBP[np];
  ppBP[np] := NoW;
  if (ppPending[np] # << >>) { nres := Head(ppPending[np]); ppPending[np] := Tail(ppPending[np]); rv[self] := 0; }
  else if (ppClosed[np]) { nres := 0 - 1; rv[self] := 0; }
  else { ppNotify[np] := TASK(self); rv[self] := 5; };
  if (IsLocking(nbp)) { call Wake(nbp); };
z_cn_after:  \* the consumer sees the item only once poll_next has returned (after it has released the back-pressure)
  if (rv[self] = 5) { goto cn_park; }
  else { h := IF nres < 0 THEN ObsOutEnd(h, np) ELSE ObsOut(h, np, nres); return; };
cn_park:     \* [park]
  await parkTok[self];
  parkTok[self] := FALSE;
  goto cn_poll;
}

\* ---- PipeStream::drop: everything happens while the stream core is locked, so it is one step
procedure PipeDrop(dp) {
ps_drop:     \* [pcore]
  ppPending[dp] := << >>;
  ppClosed[dp] := TRUE;
  atomic[self] := TRUE;
  if (IsLocking(ppNC[dp])) { call Wake(ppNC[dp]); };
z_ps2:
  ppNC[dp] := NoW;
  jkind[ChuteJob(dp, "chute_release")] := "plain";
  call ScheduleJob(Chute, ChuteJob(dp, "chute_release"));
z_ps3:
  atomic[self] := FALSE;
  ppAlive[dp] := FALSE;
  rv[self] := 0;
z_ps_gc:     \* the stream core may have been the last thing keeping the pipe's context alive
  if (pollFn[dp] /\ ~CtxAlive(dp)) { pollFn[dp] := FALSE; h := PFlag(PFlag(h, dp, "in_dropped"), dp, "closure_dropped"); };
  return;
}

\* ---- despawn_threads_if_overloaded
procedure Despawn() {
ds_max:      \* [maxt]
  skip;
ds_pop:      \* [threads]
  await thrHeld = "";
  dsl[self] := [i \in 1..(IF Len(pthreads) > maxThreads THEN Len(pthreads) - maxThreads ELSE 0) |-> pthreads[Len(pthreads) + 1 - i]];
  chanOpen := [p \in PoolSet |-> chanOpen[p] /\ ~(\E i \in (maxThreads + 1)..Len(pthreads) : pthreads[i] = p)];
  pthreads := SubSeq(pthreads, 1, IF Len(pthreads) > maxThreads THEN maxThreads ELSE Len(pthreads));
  if (dsl[self] = << >>) { rv[self] := 0; return; };
ds_join:     \* [join]
  await pfin[Head(dsl[self])];
  h := ObsBlocked(h, self);
  dsl[self] := Tail(dsl[self]);
  if (Len(dsl[self]) > 0) { goto ds_join; } else { rv[self] := 0; return; };
}

\* ---- SchedulerFuture::poll + drain_queue
procedure PollFuture(pf, pctx)
  variables pq = 0, pj = 0, pd = 0; {
pf_decide:   \* [fres] (queue core nested)
  if (fres[pf] = "some") { fres[pf] := "taken"; rv[self] := 0; return; }
  else if (fres[pf] = "cancelled") { fres[pf] := "taken"; rv[self] := 4; return; }
  else if (qstate[O(pf)] \in {"Running", "WaitingForWake", "WaitingForUnpark", "AwokenWhileRunning"}
           \/ (qstate[O(pf)] = "WaitingForPoll" /\ qpoll[O(pf)] # pf)) {
    fwaker[pf] := pctx; rv[self] := 5; return;
  }
  else if (qstate[O(pf)] = "Panicked") { fwaker[pf] := pctx; rv[self] := 2; return; }
  else { pq := O(pf); qstate[O(pf)] := "Running"; qpoll[O(pf)] := 0; };
dq_res:      \* [fres]
  if (fres[pf] = "some") { fres[pf] := "taken"; rv[self] := 0; goto dq_idle; }
  else if (fres[pf] = "cancelled") { fres[pf] := "taken"; rv[self] := 4; goto dq_idle; };
dq_deq:      \* [core] dequeue
  if (qstate[pq] \in Waiting \/ jobs[pq] = << >>) { goto dq_empty_w; }
  else {
    pj := Head(jobs[pq]); jobs[pq] := Tail(jobs[pq]);
    pd := nextDW; nextDW := nextDW + 1;
    call RunJob(pq, pj, DW(pd));
  };
z_dq_after:
  if (rv[self] = 5) { goto dq_requeue; }
  else if (rv[self] = 9) { if (NeedsFinish(pj)) { call FinishJob(pj); goto dq_panic; } else { goto dq_panic; } }
  else if (NeedsFinish(pj)) { call FinishJob(pj); goto dq_res; }
  else { goto dq_res; };
dq_requeue:  \* [core]
  jobs[pq] := << pj >> \o jobs[pq];
dq_res2:     \* [fres]
  if (fres[pf] = "some") { fres[pf] := "taken"; rv[self] := 0; }
  else if (fres[pf] = "cancelled") { fres[pf] := "taken"; rv[self] := 4; }
  else { goto dq_setwaker; };
dq_waitwake: \* [core]
  qstate[pq] := "WaitingForWake";
dq_ww1:      \* [dw] wake_with(WakeQueue)
  if (dwSt[pd] = "Woken") { call Wake(WQ(pq)); }
  else { dwSt[pd] := "Will"; dwW[pd] := WQ(pq); };
z_dq_ready:
  return;
dq_setwaker: \* [fres]
  fwaker[pf] := pctx;
dq_waitpoll: \* [core]
  qstate[pq] := "WaitingForPoll"; qpoll[pq] := pf;
dq_ww2:      \* [dw] wake_with(DoubleWaker)
  dblW1[pd] := WQ(pq); dblW2[pd] := pctx;
  if (dwSt[pd] = "Woken") { call Wake(DBL(pd)); }
  else { dwSt[pd] := "Will"; dwW[pd] := DBL(pd); };
z_dq_pending:
  rv[self] := 5;
  return;
dq_empty_w:  \* [fres]
  fwaker[pf] := pctx;
dq_empty_idle: \* [core]
  qstate[pq] := "Idle";
  call Reschedule(pq);
  goto z_dq_pending;
dq_idle:     \* [core]
  qstate[pq] := "Idle";
  call Reschedule(pq);
  goto z_dq_ready;
dq_panic:    \* [core] ActiveQueue::drop while panicking
  qstate[pq] := "Panicked";
  rv[self] := 2;
  return;
}

process (caller \in Threads) {
c_start:     \* [start]
  call RunOps(Prog[self], 0, NoW);
z_c_exit:    \* the thread's last step also covers its exit
  h := ObsExit(h, self, 0, 0);
  cdone[self] := TRUE;
}

process (pool \in PoolSet)
  variables nq = 0; {
pt_recv:     \* [recv]
  await palive[self] /\ (inbox[self] > 0 \/ ~chanOpen[self]);
  if (inbox[self] > 0) { inbox[self] := inbox[self] - 1; }
  else { pfin[self] := TRUE; h := ObsExit(h, self, 1, 0); goto z_pt_done; };
pt_next:     \* [busy] lock the busy flag, next_to_run
  with (r = NTR(schedule)) {
    busyLocked[self] := TRUE;
    schedule := r.rest; nq := r.found;
    if (r.found # 0) { qstate[r.found] := "Running"; qpoll[r.found] := 0; };
  };
pt_after:    \* [unlock] the schedule has been examined; the busy flag is released
  busyLocked[self] := FALSE;
  if (nq = 0) { busy[self] := FALSE; goto pt_recv; }
  else { call PoolDrain(nq); };
z_pt_chk:
  if (rv[self] = 9) { pfin[self] := TRUE; h := ObsExit(h, self, 1, 1); goto z_pt_done; }
  else { goto pt_next; };
z_pt_done:
  skip;
}
} *)
\* BEGIN TRANSLATION
CONSTANT defaultInitValue
VARIABLES pc, qstate, qpoll, jobs, wakeBlocked, schedule, pthreads, nspawned, 
          palive, busy, busyLocked, inbox, chanOpen, pfin, thrHeld, 
          maxThreads, jkind, jaw, fres, fwaker, gfired, gwaker, gthreads, 
          gwhist, dwSt, dwW, dblTaken, dblW1, dblW2, nextDW, ready, cwait, 
          cnotif, cvHeld, sdres, jpanic, sfst, slotSt, qrSent, qrWaker, 
          dnState, susDropped, dnWaker, parkTok, barGen, myBar, cdone, rv, 
          rwb, rneed, stres, spName, dsl, atomic, strong, ppPending, ppClosed, 
          ppNotify, ppNC, ppBP, ppDepth, ppAlive, ppHeld, inItems, inClosed, 
          inWaker, pollFn, chuteFn, pwTaken, nextPoll, ppItem, pjLive, 
          ppStage, h, stack

(* define statement *)
RECURSIVE NTR(_)
NTR(s) == IF s = << >> THEN [found |-> 0, rest |-> << >>]
          ELSE IF qstate[Head(s)] \in {"Pending", "WaitingForPoll"} THEN [found |-> Head(s), rest |-> Tail(s)]
          ELSE NTR(Tail(s))



RECURSIVE FirstDormant(_)
FirstDormant(i) == IF i > Len(pthreads) THEN [kind |-> "none", p |-> "", i |-> i]
                   ELSE LET p == pthreads[i] IN
                        IF busyLocked[p] THEN (IF FixD2 THEN [kind |-> "block", p |-> p, i |-> i] ELSE FirstDormant(i + 1))
                        ELSE IF ~busy[p] THEN [kind |-> "take", p |-> p, i |-> i]
                        ELSE FirstDormant(i + 1)

NeedsFinish(j) == jkind[j] \in {"fut", "slot", "syncbg"}

AwItem(j) == Aw(j)[jaw[j]]
AwReady(j) == AwItem(j) < 0 \/ AwItem(j) \in gfired
Unpark(tok, ts) == [t \in Procs |-> tok[t] \/ t \in ts]
TaskOf(w) == IF w.k = "TASK" THEN {w.t} ELSE {}
SeqSet(sq) == {sq[i] : i \in 1..Len(sq)}
Claimable(q) == qstate[q] \in {"Pending", "Idle"}

CvAlive(c) == cvHeld[c] \/ \E t \in Procs : c \in SeqSet(rwb[t])
LiveWaiters(q) == SelectSeq(wakeBlocked[q], CvAlive)
NewPoll(p) == CHOOSE j \in PollJobs(p) : OpTab[j].n = nextPoll[p]
CoreAlive(p) == ppAlive[p] \/ ppHeld[p] > 0


HoldsCtx(w) == w.k = "PW" /\ ~pwTaken[w.d]


PoolIdle(p) == ~palive[p] \/ pfin[p] \/ (chanOpen[p] /\ ~busy[p] /\ ~busyLocked[p] /\ inbox[p] = 0)
GateBlocked(t) == ~parkTok[t] /\ \E g \in Gates : t \in gthreads[g] /\ g \notin gfired
BarrierReady(t) == /\ \A c \in Threads \ {t} : cdone[c] \/ myBar[c] = barGen \/ GateBlocked(c)
                   /\ \A p \in PoolSet : PoolIdle(p) \/ GateBlocked(p)
CtxAlive(p) == \/ HoldsCtx(inWaker[p])
               \/ (CoreAlive(p) /\ (HoldsCtx(ppNC[p]) \/ HoldsCtx(ppBP[p])))
               \/ \E j \in PollJobs(p) : pjLive[j]

VARIABLES dead, sti, smax, rq, sq, sj, ww, rsq, bown, bwk, bi, bcur, bw, bsp, 
          jq, jj, jwk, fj, dq, dj, oq, oop, omode, oj, yq, yop, yclaimed, tq, 
          top, af, wf, wop, sf, sctx, xf, cop, kj, pp, pwk, np, nbp, nres, dp, 
          pf, pctx, pq, pj, pd, nq

vars == << pc, qstate, qpoll, jobs, wakeBlocked, schedule, pthreads, nspawned, 
           palive, busy, busyLocked, inbox, chanOpen, pfin, thrHeld, 
           maxThreads, jkind, jaw, fres, fwaker, gfired, gwaker, gthreads, 
           gwhist, dwSt, dwW, dblTaken, dblW1, dblW2, nextDW, ready, cwait, 
           cnotif, cvHeld, sdres, jpanic, sfst, slotSt, qrSent, qrWaker, 
           dnState, susDropped, dnWaker, parkTok, barGen, myBar, cdone, rv, 
           rwb, rneed, stres, spName, dsl, atomic, strong, ppPending, 
           ppClosed, ppNotify, ppNC, ppBP, ppDepth, ppAlive, ppHeld, inItems, 
           inClosed, inWaker, pollFn, chuteFn, pwTaken, nextPoll, ppItem, 
           pjLive, ppStage, h, stack, dead, sti, smax, rq, sq, sj, ww, rsq, 
           bown, bwk, bi, bcur, bw, bsp, jq, jj, jwk, fj, dq, dj, oq, oop, 
           omode, oj, yq, yop, yclaimed, tq, top, af, wf, wop, sf, sctx, xf, 
           cop, kj, pp, pwk, np, nbp, nres, dp, pf, pctx, pq, pj, pd, nq >>

ProcSet == (Threads) \cup (PoolSet)

Init == (* Global variables *)
        /\ qstate = [q \in QObjs |-> "Idle"]
        /\ qpoll = [q \in QObjs |-> 0]
        /\ jobs = [q \in QObjs |-> << >>]
        /\ wakeBlocked = [q \in QObjs |-> << >>]
        /\ schedule = << >>
        /\ pthreads = << >>
        /\ nspawned = 0
        /\ palive = [p \in PoolSet |-> FALSE]
        /\ busy = [p \in PoolSet |-> FALSE]
        /\ busyLocked = [p \in PoolSet |-> FALSE]
        /\ inbox = [p \in PoolSet |-> 0]
        /\ chanOpen = [p \in PoolSet |-> FALSE]
        /\ pfin = [p \in PoolSet |-> FALSE]
        /\ thrHeld = ""
        /\ maxThreads = Pool0
        /\ jkind = [j \in Ops |-> "none"]
        /\ jaw = [j \in Ops |-> 0]
        /\ fres = [f \in Ops |-> "none"]
        /\ fwaker = [f \in Ops |-> NoW]
        /\ gfired = {}
        /\ gwaker = [g \in Gates |-> NoW]
        /\ gthreads = [g \in Gates |-> {}]
        /\ gwhist = [g \in Gates |-> << >>]
        /\ dwSt = [d \in DWs |-> "NotWoken"]
        /\ dwW = [d \in DWs |-> NoW]
        /\ dblTaken = [d \in DWs |-> FALSE]
        /\ dblW1 = [d \in DWs |-> NoW]
        /\ dblW2 = [d \in DWs |-> NoW]
        /\ nextDW = 1
        /\ ready = [op \in Ops |-> FALSE]
        /\ cwait = [op \in Ops |-> FALSE]
        /\ cnotif = [op \in Ops |-> FALSE]
        /\ cvHeld = [op \in Ops |-> FALSE]
        /\ sdres = [op \in Ops |-> FALSE]
        /\ jpanic = [op \in Ops |-> FALSE]
        /\ sfst = [f \in Ops |-> "WFQ"]
        /\ slotSt = [f \in Ops |-> 0]
        /\ qrSent = [f \in Ops |-> FALSE]
        /\ qrWaker = [f \in Ops |-> NoW]
        /\ dnState = [f \in Ops |-> "open"]
        /\ susDropped = [f \in Ops |-> FALSE]
        /\ dnWaker = [f \in Ops |-> NoW]
        /\ parkTok = [t \in Procs |-> FALSE]
        /\ barGen = 1
        /\ myBar = [t \in Procs |-> 0]
        /\ cdone = [t \in Threads |-> FALSE]
        /\ rv = [t \in Procs |-> 0]
        /\ rwb = [t \in Procs |-> << >>]
        /\ rneed = [t \in Procs |-> FALSE]
        /\ stres = [t \in Procs |-> FALSE]
        /\ spName = [t \in Procs |-> ""]
        /\ dsl = [t \in Procs |-> << >>]
        /\ atomic = [t \in Procs |-> FALSE]
        /\ strong = [o \in Objs |-> 1]
        /\ ppPending = [p \in Pipes |-> << >>]
        /\ ppClosed = [p \in Pipes |-> FALSE]
        /\ ppNotify = [p \in Pipes |-> NoW]
        /\ ppNC = [p \in Pipes |-> NoW]
        /\ ppBP = [p \in Pipes |-> NoW]
        /\ ppDepth = [p \in Pipes |-> 5]
        /\ ppAlive = [p \in Pipes |-> FALSE]
        /\ ppHeld = [p \in Pipes |-> 0]
        /\ inItems = [p \in Pipes |-> << >>]
        /\ inClosed = [p \in Pipes |-> FALSE]
        /\ inWaker = [p \in Pipes |-> NoW]
        /\ pollFn = [p \in Pipes |-> FALSE]
        /\ chuteFn = [p \in Pipes |-> FALSE]
        /\ pwTaken = [j \in Ops |-> FALSE]
        /\ nextPoll = [p \in Pipes |-> 1]
        /\ ppItem = [j \in Ops |-> 0]
        /\ pjLive = [j \in Ops |-> FALSE]
        /\ ppStage = [j \in Ops |-> 0]
        /\ h = InitH
        (* Procedure ScheduleThread *)
        /\ dead = [ self \in ProcSet |-> << >>]
        /\ sti = [ self \in ProcSet |-> 1]
        /\ smax = [ self \in ProcSet |-> 0]
        (* Procedure Reschedule *)
        /\ rq = [ self \in ProcSet |-> defaultInitValue]
        (* Procedure ScheduleJob *)
        /\ sq = [ self \in ProcSet |-> defaultInitValue]
        /\ sj = [ self \in ProcSet |-> defaultInitValue]
        (* Procedure Wake *)
        /\ ww = [ self \in ProcSet |-> defaultInitValue]
        (* Procedure RunOps *)
        /\ rsq = [ self \in ProcSet |-> defaultInitValue]
        /\ bown = [ self \in ProcSet |-> defaultInitValue]
        /\ bwk = [ self \in ProcSet |-> defaultInitValue]
        /\ bi = [ self \in ProcSet |-> 0]
        /\ bcur = [ self \in ProcSet |-> 0]
        /\ bw = [ self \in ProcSet |-> NoW]
        /\ bsp = [ self \in ProcSet |-> << >>]
        (* Procedure RunJob *)
        /\ jq = [ self \in ProcSet |-> defaultInitValue]
        /\ jj = [ self \in ProcSet |-> defaultInitValue]
        /\ jwk = [ self \in ProcSet |-> defaultInitValue]
        (* Procedure FinishJob *)
        /\ fj = [ self \in ProcSet |-> defaultInitValue]
        (* Procedure PoolDrain *)
        /\ dq = [ self \in ProcSet |-> defaultInitValue]
        /\ dj = [ self \in ProcSet |-> 0]
        (* Procedure RunOne *)
        /\ oq = [ self \in ProcSet |-> defaultInitValue]
        /\ oop = [ self \in ProcSet |-> defaultInitValue]
        /\ omode = [ self \in ProcSet |-> defaultInitValue]
        /\ oj = [ self \in ProcSet |-> 0]
        (* Procedure Sync *)
        /\ yq = [ self \in ProcSet |-> defaultInitValue]
        /\ yop = [ self \in ProcSet |-> defaultInitValue]
        /\ yclaimed = [ self \in ProcSet |-> FALSE]
        (* Procedure TrySync *)
        /\ tq = [ self \in ProcSet |-> defaultInitValue]
        /\ top = [ self \in ProcSet |-> defaultInitValue]
        (* Procedure Await *)
        /\ af = [ self \in ProcSet |-> defaultInitValue]
        (* Procedure WaitSync *)
        /\ wf = [ self \in ProcSet |-> defaultInitValue]
        /\ wop = [ self \in ProcSet |-> defaultInitValue]
        (* Procedure PollSync *)
        /\ sf = [ self \in ProcSet |-> defaultInitValue]
        /\ sctx = [ self \in ProcSet |-> defaultInitValue]
        (* Procedure DropFuture *)
        /\ xf = [ self \in ProcSet |-> defaultInitValue]
        (* Procedure PipeCreate *)
        /\ cop = [ self \in ProcSet |-> defaultInitValue]
        (* Procedure PipePoll *)
        /\ kj = [ self \in ProcSet |-> defaultInitValue]
        /\ pp = [ self \in ProcSet |-> defaultInitValue]
        /\ pwk = [ self \in ProcSet |-> defaultInitValue]
        (* Procedure PipeNext *)
        /\ np = [ self \in ProcSet |-> defaultInitValue]
        /\ nbp = [ self \in ProcSet |-> NoW]
        /\ nres = [ self \in ProcSet |-> 0]
        (* Procedure PipeDrop *)
        /\ dp = [ self \in ProcSet |-> defaultInitValue]
        (* Procedure PollFuture *)
        /\ pf = [ self \in ProcSet |-> defaultInitValue]
        /\ pctx = [ self \in ProcSet |-> defaultInitValue]
        /\ pq = [ self \in ProcSet |-> 0]
        /\ pj = [ self \in ProcSet |-> 0]
        /\ pd = [ self \in ProcSet |-> 0]
        (* Process pool *)
        /\ nq = [self \in PoolSet |-> 0]
        /\ stack = [self \in ProcSet |-> << >>]
        /\ pc = [self \in ProcSet |-> CASE self \in Threads -> "c_start"
                                        [] self \in PoolSet -> "pt_recv"]

st_reap(self) == /\ pc[self] = "st_reap"
                 /\ thrHeld = ""
                 /\ dead' = [dead EXCEPT ![self] = SelectSeq(pthreads, LAMBDA p : pfin[p])]
                 /\ pthreads' = SelectSeq(pthreads, LAMBDA p : ~pfin[p])
                 /\ IF dead'[self] = << >>
                       THEN /\ pc' = [pc EXCEPT ![self] = "st_dormant"]
                       ELSE /\ pc' = [pc EXCEPT ![self] = "st_join"]
                 /\ UNCHANGED << qstate, qpoll, jobs, wakeBlocked, schedule, 
                                 nspawned, palive, busy, busyLocked, inbox, 
                                 chanOpen, pfin, thrHeld, maxThreads, jkind, 
                                 jaw, fres, fwaker, gfired, gwaker, gthreads, 
                                 gwhist, dwSt, dwW, dblTaken, dblW1, dblW2, 
                                 nextDW, ready, cwait, cnotif, cvHeld, sdres, 
                                 jpanic, sfst, slotSt, qrSent, qrWaker, 
                                 dnState, susDropped, dnWaker, parkTok, barGen, 
                                 myBar, cdone, rv, rwb, rneed, stres, spName, 
                                 dsl, atomic, strong, ppPending, ppClosed, 
                                 ppNotify, ppNC, ppBP, ppDepth, ppAlive, 
                                 ppHeld, inItems, inClosed, inWaker, pollFn, 
                                 chuteFn, pwTaken, nextPoll, ppItem, pjLive, 
                                 ppStage, h, stack, sti, smax, rq, sq, sj, ww, 
                                 rsq, bown, bwk, bi, bcur, bw, bsp, jq, jj, 
                                 jwk, fj, dq, dj, oq, oop, omode, oj, yq, yop, 
                                 yclaimed, tq, top, af, wf, wop, sf, sctx, xf, 
                                 cop, kj, pp, pwk, np, nbp, nres, dp, pf, pctx, 
                                 pq, pj, pd, nq >>

st_join(self) == /\ pc[self] = "st_join"
                 /\ dead' = [dead EXCEPT ![self] = Tail(dead[self])]
                 /\ IF dead'[self] # << >>
                       THEN /\ pc' = [pc EXCEPT ![self] = "st_join"]
                       ELSE /\ pc' = [pc EXCEPT ![self] = "st_dormant"]
                 /\ UNCHANGED << qstate, qpoll, jobs, wakeBlocked, schedule, 
                                 pthreads, nspawned, palive, busy, busyLocked, 
                                 inbox, chanOpen, pfin, thrHeld, maxThreads, 
                                 jkind, jaw, fres, fwaker, gfired, gwaker, 
                                 gthreads, gwhist, dwSt, dwW, dblTaken, dblW1, 
                                 dblW2, nextDW, ready, cwait, cnotif, cvHeld, 
                                 sdres, jpanic, sfst, slotSt, qrSent, qrWaker, 
                                 dnState, susDropped, dnWaker, parkTok, barGen, 
                                 myBar, cdone, rv, rwb, rneed, stres, spName, 
                                 dsl, atomic, strong, ppPending, ppClosed, 
                                 ppNotify, ppNC, ppBP, ppDepth, ppAlive, 
                                 ppHeld, inItems, inClosed, inWaker, pollFn, 
                                 chuteFn, pwTaken, nextPoll, ppItem, pjLive, 
                                 ppStage, h, stack, sti, smax, rq, sq, sj, ww, 
                                 rsq, bown, bwk, bi, bcur, bw, bsp, jq, jj, 
                                 jwk, fj, dq, dj, oq, oop, omode, oj, yq, yop, 
                                 yclaimed, tq, top, af, wf, wop, sf, sctx, xf, 
                                 cop, kj, pp, pwk, np, nbp, nres, dp, pf, pctx, 
                                 pq, pj, pd, nq >>

st_dormant(self) == /\ pc[self] = "st_dormant"
                    /\ (thrHeld = "" \/ thrHeld = self) /\ (thrHeld = self => ~busyLocked[pthreads[sti[self]]])
                    /\ LET r == FirstDormant(sti[self]) IN
                         IF r.kind = "take"
                            THEN /\ busy' = [busy EXCEPT ![r.p] = TRUE]
                                 /\ inbox' = [inbox EXCEPT ![r.p] = inbox[r.p] + 1]
                                 /\ thrHeld' = ""
                                 /\ stres' = [stres EXCEPT ![self] = TRUE]
                                 /\ pc' = [pc EXCEPT ![self] = Head(stack[self]).pc]
                                 /\ dead' = [dead EXCEPT ![self] = Head(stack[self]).dead]
                                 /\ sti' = [sti EXCEPT ![self] = Head(stack[self]).sti]
                                 /\ smax' = [smax EXCEPT ![self] = Head(stack[self]).smax]
                                 /\ stack' = [stack EXCEPT ![self] = Tail(stack[self])]
                            ELSE /\ IF r.kind = "block"
                                       THEN /\ thrHeld' = self
                                            /\ sti' = [sti EXCEPT ![self] = r.i]
                                            /\ pc' = [pc EXCEPT ![self] = "st_dormant"]
                                       ELSE /\ thrHeld' = ""
                                            /\ sti' = [sti EXCEPT ![self] = 1]
                                            /\ pc' = [pc EXCEPT ![self] = "st_max"]
                                 /\ UNCHANGED << busy, inbox, stres, stack, 
                                                 dead, smax >>
                    /\ UNCHANGED << qstate, qpoll, jobs, wakeBlocked, schedule, 
                                    pthreads, nspawned, palive, busyLocked, 
                                    chanOpen, pfin, maxThreads, jkind, jaw, 
                                    fres, fwaker, gfired, gwaker, gthreads, 
                                    gwhist, dwSt, dwW, dblTaken, dblW1, dblW2, 
                                    nextDW, ready, cwait, cnotif, cvHeld, 
                                    sdres, jpanic, sfst, slotSt, qrSent, 
                                    qrWaker, dnState, susDropped, dnWaker, 
                                    parkTok, barGen, myBar, cdone, rv, rwb, 
                                    rneed, spName, dsl, atomic, strong, 
                                    ppPending, ppClosed, ppNotify, ppNC, ppBP, 
                                    ppDepth, ppAlive, ppHeld, inItems, 
                                    inClosed, inWaker, pollFn, chuteFn, 
                                    pwTaken, nextPoll, ppItem, pjLive, ppStage, 
                                    h, rq, sq, sj, ww, rsq, bown, bwk, bi, 
                                    bcur, bw, bsp, jq, jj, jwk, fj, dq, dj, oq, 
                                    oop, omode, oj, yq, yop, yclaimed, tq, top, 
                                    af, wf, wop, sf, sctx, xf, cop, kj, pp, 
                                    pwk, np, nbp, nres, dp, pf, pctx, pq, pj, 
                                    pd, nq >>

st_max(self) == /\ pc[self] = "st_max"
                /\ smax' = [smax EXCEPT ![self] = maxThreads]
                /\ pc' = [pc EXCEPT ![self] = "st_spawn"]
                /\ UNCHANGED << qstate, qpoll, jobs, wakeBlocked, schedule, 
                                pthreads, nspawned, palive, busy, busyLocked, 
                                inbox, chanOpen, pfin, thrHeld, maxThreads, 
                                jkind, jaw, fres, fwaker, gfired, gwaker, 
                                gthreads, gwhist, dwSt, dwW, dblTaken, dblW1, 
                                dblW2, nextDW, ready, cwait, cnotif, cvHeld, 
                                sdres, jpanic, sfst, slotSt, qrSent, qrWaker, 
                                dnState, susDropped, dnWaker, parkTok, barGen, 
                                myBar, cdone, rv, rwb, rneed, stres, spName, 
                                dsl, atomic, strong, ppPending, ppClosed, 
                                ppNotify, ppNC, ppBP, ppDepth, ppAlive, ppHeld, 
                                inItems, inClosed, inWaker, pollFn, chuteFn, 
                                pwTaken, nextPoll, ppItem, pjLive, ppStage, h, 
                                stack, dead, sti, rq, sq, sj, ww, rsq, bown, 
                                bwk, bi, bcur, bw, bsp, jq, jj, jwk, fj, dq, 
                                dj, oq, oop, omode, oj, yq, yop, yclaimed, tq, 
                                top, af, wf, wop, sf, sctx, xf, cop, kj, pp, 
                                pwk, np, nbp, nres, dp, pf, pctx, pq, pj, pd, 
                                nq >>

st_spawn(self) == /\ pc[self] = "st_spawn"
                  /\ thrHeld = ""
                  /\ IF Len(pthreads) < smax[self]
                        THEN /\ pthreads' = Append(pthreads, PoolNames[nspawned + 1])
                             /\ palive' = [palive EXCEPT ![PoolNames[nspawned + 1]] = TRUE]
                             /\ chanOpen' = [chanOpen EXCEPT ![PoolNames[nspawned + 1]] = TRUE]
                             /\ nspawned' = nspawned + 1
                             /\ h' = ObsSpawn(h, self, 1)
                             /\ pc' = [pc EXCEPT ![self] = "st_reap"]
                             /\ UNCHANGED << stres, stack, dead, sti, smax >>
                        ELSE /\ stres' = [stres EXCEPT ![self] = FALSE]
                             /\ pc' = [pc EXCEPT ![self] = Head(stack[self]).pc]
                             /\ dead' = [dead EXCEPT ![self] = Head(stack[self]).dead]
                             /\ sti' = [sti EXCEPT ![self] = Head(stack[self]).sti]
                             /\ smax' = [smax EXCEPT ![self] = Head(stack[self]).smax]
                             /\ stack' = [stack EXCEPT ![self] = Tail(stack[self])]
                             /\ UNCHANGED << pthreads, nspawned, palive, 
                                             chanOpen, h >>
                  /\ UNCHANGED << qstate, qpoll, jobs, wakeBlocked, schedule, 
                                  busy, busyLocked, inbox, pfin, thrHeld, 
                                  maxThreads, jkind, jaw, fres, fwaker, gfired, 
                                  gwaker, gthreads, gwhist, dwSt, dwW, 
                                  dblTaken, dblW1, dblW2, nextDW, ready, cwait, 
                                  cnotif, cvHeld, sdres, jpanic, sfst, slotSt, 
                                  qrSent, qrWaker, dnState, susDropped, 
                                  dnWaker, parkTok, barGen, myBar, cdone, rv, 
                                  rwb, rneed, spName, dsl, atomic, strong, 
                                  ppPending, ppClosed, ppNotify, ppNC, ppBP, 
                                  ppDepth, ppAlive, ppHeld, inItems, inClosed, 
                                  inWaker, pollFn, chuteFn, pwTaken, nextPoll, 
                                  ppItem, pjLive, ppStage, rq, sq, sj, ww, rsq, 
                                  bown, bwk, bi, bcur, bw, bsp, jq, jj, jwk, 
                                  fj, dq, dj, oq, oop, omode, oj, yq, yop, 
                                  yclaimed, tq, top, af, wf, wop, sf, sctx, xf, 
                                  cop, kj, pp, pwk, np, nbp, nres, dp, pf, 
                                  pctx, pq, pj, pd, nq >>

ScheduleThread(self) == st_reap(self) \/ st_join(self) \/ st_dormant(self)
                           \/ st_max(self) \/ st_spawn(self)

rq_core(self) == /\ pc[self] = "rq_core"
                 /\ IF FixD3
                       THEN /\ rwb' = [rwb EXCEPT ![self] = LiveWaiters(rq[self])]
                            /\ UNCHANGED cnotif
                       ELSE /\ cnotif' = [c \in Ops |-> cnotif[c] \/ (c \in SeqSet(LiveWaiters(rq[self])) /\ cwait[c])]
                            /\ rwb' = rwb
                 /\ wakeBlocked' = [wakeBlocked EXCEPT ![rq[self]] = LiveWaiters(rq[self])]
                 /\ IF qstate[rq[self]] = "Idle" /\ jobs[rq[self]] # << >>
                       THEN /\ qstate' = [qstate EXCEPT ![rq[self]] = "Pending"]
                            /\ rneed' = [rneed EXCEPT ![self] = TRUE]
                       ELSE /\ IF qstate[rq[self]] = "WaitingForPoll"
                                  THEN /\ rneed' = [rneed EXCEPT ![self] = TRUE]
                                  ELSE /\ rneed' = [rneed EXCEPT ![self] = FALSE]
                            /\ UNCHANGED qstate
                 /\ IF FixD3 /\ LiveWaiters(rq[self]) # << >>
                       THEN /\ pc' = [pc EXCEPT ![self] = "rq_notify"]
                            /\ UNCHANGED << stack, rq >>
                       ELSE /\ IF rneed'[self]
                                  THEN /\ pc' = [pc EXCEPT ![self] = "rq_sched"]
                                       /\ UNCHANGED << stack, rq >>
                                  ELSE /\ pc' = [pc EXCEPT ![self] = Head(stack[self]).pc]
                                       /\ rq' = [rq EXCEPT ![self] = Head(stack[self]).rq]
                                       /\ stack' = [stack EXCEPT ![self] = Tail(stack[self])]
                 /\ UNCHANGED << qpoll, jobs, schedule, pthreads, nspawned, 
                                 palive, busy, busyLocked, inbox, chanOpen, 
                                 pfin, thrHeld, maxThreads, jkind, jaw, fres, 
                                 fwaker, gfired, gwaker, gthreads, gwhist, 
                                 dwSt, dwW, dblTaken, dblW1, dblW2, nextDW, 
                                 ready, cwait, cvHeld, sdres, jpanic, sfst, 
                                 slotSt, qrSent, qrWaker, dnState, susDropped, 
                                 dnWaker, parkTok, barGen, myBar, cdone, rv, 
                                 stres, spName, dsl, atomic, strong, ppPending, 
                                 ppClosed, ppNotify, ppNC, ppBP, ppDepth, 
                                 ppAlive, ppHeld, inItems, inClosed, inWaker, 
                                 pollFn, chuteFn, pwTaken, nextPoll, ppItem, 
                                 pjLive, ppStage, h, dead, sti, smax, sq, sj, 
                                 ww, rsq, bown, bwk, bi, bcur, bw, bsp, jq, jj, 
                                 jwk, fj, dq, dj, oq, oop, omode, oj, yq, yop, 
                                 yclaimed, tq, top, af, wf, wop, sf, sctx, xf, 
                                 cop, kj, pp, pwk, np, nbp, nres, dp, pf, pctx, 
                                 pq, pj, pd, nq >>

rq_notify(self) == /\ pc[self] = "rq_notify"
                   /\ cnotif' = [cnotif EXCEPT ![Head(rwb[self])] = cwait[Head(rwb[self])]]
                   /\ rwb' = [rwb EXCEPT ![self] = Tail(rwb[self])]
                   /\ IF Len(rwb'[self]) > 0
                         THEN /\ pc' = [pc EXCEPT ![self] = "rq_notify"]
                              /\ UNCHANGED << stack, rq >>
                         ELSE /\ IF ~rneed[self]
                                    THEN /\ pc' = [pc EXCEPT ![self] = Head(stack[self]).pc]
                                         /\ rq' = [rq EXCEPT ![self] = Head(stack[self]).rq]
                                         /\ stack' = [stack EXCEPT ![self] = Tail(stack[self])]
                                    ELSE /\ pc' = [pc EXCEPT ![self] = "rq_sched"]
                                         /\ UNCHANGED << stack, rq >>
                   /\ UNCHANGED << qstate, qpoll, jobs, wakeBlocked, schedule, 
                                   pthreads, nspawned, palive, busy, 
                                   busyLocked, inbox, chanOpen, pfin, thrHeld, 
                                   maxThreads, jkind, jaw, fres, fwaker, 
                                   gfired, gwaker, gthreads, gwhist, dwSt, dwW, 
                                   dblTaken, dblW1, dblW2, nextDW, ready, 
                                   cwait, cvHeld, sdres, jpanic, sfst, slotSt, 
                                   qrSent, qrWaker, dnState, susDropped, 
                                   dnWaker, parkTok, barGen, myBar, cdone, rv, 
                                   rneed, stres, spName, dsl, atomic, strong, 
                                   ppPending, ppClosed, ppNotify, ppNC, ppBP, 
                                   ppDepth, ppAlive, ppHeld, inItems, inClosed, 
                                   inWaker, pollFn, chuteFn, pwTaken, nextPoll, 
                                   ppItem, pjLive, ppStage, h, dead, sti, smax, 
                                   sq, sj, ww, rsq, bown, bwk, bi, bcur, bw, 
                                   bsp, jq, jj, jwk, fj, dq, dj, oq, oop, 
                                   omode, oj, yq, yop, yclaimed, tq, top, af, 
                                   wf, wop, sf, sctx, xf, cop, kj, pp, pwk, np, 
                                   nbp, nres, dp, pf, pctx, pq, pj, pd, nq >>

rq_sched(self) == /\ pc[self] = "rq_sched"
                  /\ schedule' = Append(schedule, rq[self])
                  /\ stack' = [stack EXCEPT ![self] = << [ procedure |->  "ScheduleThread",
                                                           pc        |->  Head(stack[self]).pc,
                                                           dead      |->  dead[self],
                                                           sti       |->  sti[self],
                                                           smax      |->  smax[self] ] >>
                                                       \o Tail(stack[self])]
                  /\ dead' = [dead EXCEPT ![self] = << >>]
                  /\ sti' = [sti EXCEPT ![self] = 1]
                  /\ smax' = [smax EXCEPT ![self] = 0]
                  /\ pc' = [pc EXCEPT ![self] = "st_reap"]
                  /\ UNCHANGED << qstate, qpoll, jobs, wakeBlocked, pthreads, 
                                  nspawned, palive, busy, busyLocked, inbox, 
                                  chanOpen, pfin, thrHeld, maxThreads, jkind, 
                                  jaw, fres, fwaker, gfired, gwaker, gthreads, 
                                  gwhist, dwSt, dwW, dblTaken, dblW1, dblW2, 
                                  nextDW, ready, cwait, cnotif, cvHeld, sdres, 
                                  jpanic, sfst, slotSt, qrSent, qrWaker, 
                                  dnState, susDropped, dnWaker, parkTok, 
                                  barGen, myBar, cdone, rv, rwb, rneed, stres, 
                                  spName, dsl, atomic, strong, ppPending, 
                                  ppClosed, ppNotify, ppNC, ppBP, ppDepth, 
                                  ppAlive, ppHeld, inItems, inClosed, inWaker, 
                                  pollFn, chuteFn, pwTaken, nextPoll, ppItem, 
                                  pjLive, ppStage, h, rq, sq, sj, ww, rsq, 
                                  bown, bwk, bi, bcur, bw, bsp, jq, jj, jwk, 
                                  fj, dq, dj, oq, oop, omode, oj, yq, yop, 
                                  yclaimed, tq, top, af, wf, wop, sf, sctx, xf, 
                                  cop, kj, pp, pwk, np, nbp, nres, dp, pf, 
                                  pctx, pq, pj, pd, nq >>

Reschedule(self) == rq_core(self) \/ rq_notify(self) \/ rq_sched(self)

sj_push(self) == /\ pc[self] = "sj_push"
                 /\ jobs' = [jobs EXCEPT ![sq[self]] = Append(jobs[sq[self]], sj[self])]
                 /\ IF qstate[sq[self]] = "Idle"
                       THEN /\ qstate' = [qstate EXCEPT ![sq[self]] = "Pending"]
                            /\ pc' = [pc EXCEPT ![self] = "sj_sched"]
                            /\ UNCHANGED << rv, stack, sq, sj >>
                       ELSE /\ IF qstate[sq[self]] = "Panicked"
                                  THEN /\ rv' = [rv EXCEPT ![self] = 2]
                                       /\ pc' = [pc EXCEPT ![self] = Head(stack[self]).pc]
                                       /\ sq' = [sq EXCEPT ![self] = Head(stack[self]).sq]
                                       /\ sj' = [sj EXCEPT ![self] = Head(stack[self]).sj]
                                       /\ stack' = [stack EXCEPT ![self] = Tail(stack[self])]
                                  ELSE /\ rv' = [rv EXCEPT ![self] = 0]
                                       /\ pc' = [pc EXCEPT ![self] = Head(stack[self]).pc]
                                       /\ sq' = [sq EXCEPT ![self] = Head(stack[self]).sq]
                                       /\ sj' = [sj EXCEPT ![self] = Head(stack[self]).sj]
                                       /\ stack' = [stack EXCEPT ![self] = Tail(stack[self])]
                            /\ UNCHANGED qstate
                 /\ UNCHANGED << qpoll, wakeBlocked, schedule, pthreads, 
                                 nspawned, palive, busy, busyLocked, inbox, 
                                 chanOpen, pfin, thrHeld, maxThreads, jkind, 
                                 jaw, fres, fwaker, gfired, gwaker, gthreads, 
                                 gwhist, dwSt, dwW, dblTaken, dblW1, dblW2, 
                                 nextDW, ready, cwait, cnotif, cvHeld, sdres, 
                                 jpanic, sfst, slotSt, qrSent, qrWaker, 
                                 dnState, susDropped, dnWaker, parkTok, barGen, 
                                 myBar, cdone, rwb, rneed, stres, spName, dsl, 
                                 atomic, strong, ppPending, ppClosed, ppNotify, 
                                 ppNC, ppBP, ppDepth, ppAlive, ppHeld, inItems, 
                                 inClosed, inWaker, pollFn, chuteFn, pwTaken, 
                                 nextPoll, ppItem, pjLive, ppStage, h, dead, 
                                 sti, smax, rq, ww, rsq, bown, bwk, bi, bcur, 
                                 bw, bsp, jq, jj, jwk, fj, dq, dj, oq, oop, 
                                 omode, oj, yq, yop, yclaimed, tq, top, af, wf, 
                                 wop, sf, sctx, xf, cop, kj, pp, pwk, np, nbp, 
                                 nres, dp, pf, pctx, pq, pj, pd, nq >>

sj_sched(self) == /\ pc[self] = "sj_sched"
                  /\ schedule' = Append(schedule, sq[self])
                  /\ stack' = [stack EXCEPT ![self] = << [ procedure |->  "ScheduleThread",
                                                           pc        |->  "z_sj_ret",
                                                           dead      |->  dead[self],
                                                           sti       |->  sti[self],
                                                           smax      |->  smax[self] ] >>
                                                       \o stack[self]]
                  /\ dead' = [dead EXCEPT ![self] = << >>]
                  /\ sti' = [sti EXCEPT ![self] = 1]
                  /\ smax' = [smax EXCEPT ![self] = 0]
                  /\ pc' = [pc EXCEPT ![self] = "st_reap"]
                  /\ UNCHANGED << qstate, qpoll, jobs, wakeBlocked, pthreads, 
                                  nspawned, palive, busy, busyLocked, inbox, 
                                  chanOpen, pfin, thrHeld, maxThreads, jkind, 
                                  jaw, fres, fwaker, gfired, gwaker, gthreads, 
                                  gwhist, dwSt, dwW, dblTaken, dblW1, dblW2, 
                                  nextDW, ready, cwait, cnotif, cvHeld, sdres, 
                                  jpanic, sfst, slotSt, qrSent, qrWaker, 
                                  dnState, susDropped, dnWaker, parkTok, 
                                  barGen, myBar, cdone, rv, rwb, rneed, stres, 
                                  spName, dsl, atomic, strong, ppPending, 
                                  ppClosed, ppNotify, ppNC, ppBP, ppDepth, 
                                  ppAlive, ppHeld, inItems, inClosed, inWaker, 
                                  pollFn, chuteFn, pwTaken, nextPoll, ppItem, 
                                  pjLive, ppStage, h, rq, sq, sj, ww, rsq, 
                                  bown, bwk, bi, bcur, bw, bsp, jq, jj, jwk, 
                                  fj, dq, dj, oq, oop, omode, oj, yq, yop, 
                                  yclaimed, tq, top, af, wf, wop, sf, sctx, xf, 
                                  cop, kj, pp, pwk, np, nbp, nres, dp, pf, 
                                  pctx, pq, pj, pd, nq >>

z_sj_ret(self) == /\ pc[self] = "z_sj_ret"
                  /\ rv' = [rv EXCEPT ![self] = 0]
                  /\ pc' = [pc EXCEPT ![self] = Head(stack[self]).pc]
                  /\ sq' = [sq EXCEPT ![self] = Head(stack[self]).sq]
                  /\ sj' = [sj EXCEPT ![self] = Head(stack[self]).sj]
                  /\ stack' = [stack EXCEPT ![self] = Tail(stack[self])]
                  /\ UNCHANGED << qstate, qpoll, jobs, wakeBlocked, schedule, 
                                  pthreads, nspawned, palive, busy, busyLocked, 
                                  inbox, chanOpen, pfin, thrHeld, maxThreads, 
                                  jkind, jaw, fres, fwaker, gfired, gwaker, 
                                  gthreads, gwhist, dwSt, dwW, dblTaken, dblW1, 
                                  dblW2, nextDW, ready, cwait, cnotif, cvHeld, 
                                  sdres, jpanic, sfst, slotSt, qrSent, qrWaker, 
                                  dnState, susDropped, dnWaker, parkTok, 
                                  barGen, myBar, cdone, rwb, rneed, stres, 
                                  spName, dsl, atomic, strong, ppPending, 
                                  ppClosed, ppNotify, ppNC, ppBP, ppDepth, 
                                  ppAlive, ppHeld, inItems, inClosed, inWaker, 
                                  pollFn, chuteFn, pwTaken, nextPoll, ppItem, 
                                  pjLive, ppStage, h, dead, sti, smax, rq, ww, 
                                  rsq, bown, bwk, bi, bcur, bw, bsp, jq, jj, 
                                  jwk, fj, dq, dj, oq, oop, omode, oj, yq, yop, 
                                  yclaimed, tq, top, af, wf, wop, sf, sctx, xf, 
                                  cop, kj, pp, pwk, np, nbp, nres, dp, pf, 
                                  pctx, pq, pj, pd, nq >>

ScheduleJob(self) == sj_push(self) \/ sj_sched(self) \/ z_sj_ret(self)

wk_lock(self) == /\ pc[self] = "wk_lock"
                 /\ IF ww[self].k = "WT"
                       THEN /\ IF qstate[ww[self].q] = "WaitingForWake"
                                  THEN /\ qstate' = [qstate EXCEPT ![ww[self].q] = "Idle"]
                                  ELSE /\ IF qstate[ww[self].q] = "WaitingForUnpark"
                                             THEN /\ qstate' = [qstate EXCEPT ![ww[self].q] = "Running"]
                                             ELSE /\ IF qstate[ww[self].q] = "Running"
                                                        THEN /\ qstate' = [qstate EXCEPT ![ww[self].q] = "AwokenWhileRunning"]
                                                        ELSE /\ TRUE
                                                             /\ UNCHANGED qstate
                            /\ parkTok' = [parkTok EXCEPT ![ww[self].t] = TRUE]
                            /\ pc' = [pc EXCEPT ![self] = Head(stack[self]).pc]
                            /\ ww' = [ww EXCEPT ![self] = Head(stack[self]).ww]
                            /\ stack' = [stack EXCEPT ![self] = Tail(stack[self])]
                            /\ UNCHANGED << jkind, dwSt, dwW, dblTaken, strong, 
                                            pwTaken, nextPoll, pjLive, rq, sq, 
                                            sj >>
                       ELSE /\ IF ww[self].k = "WQ"
                                  THEN /\ IF qstate[ww[self].q] = "WaitingForUnpark"
                                             THEN /\ pc' = [pc EXCEPT ![self] = Head(stack[self]).pc]
                                                  /\ ww' = [ww EXCEPT ![self] = Head(stack[self]).ww]
                                                  /\ stack' = [stack EXCEPT ![self] = Tail(stack[self])]
                                                  /\ UNCHANGED << qstate, rq >>
                                             ELSE /\ IF qstate[ww[self].q] = "WaitingForWake"
                                                        THEN /\ qstate' = [qstate EXCEPT ![ww[self].q] = "Idle"]
                                                        ELSE /\ IF qstate[ww[self].q] = "Running"
                                                                   THEN /\ qstate' = [qstate EXCEPT ![ww[self].q] = "AwokenWhileRunning"]
                                                                   ELSE /\ TRUE
                                                                        /\ UNCHANGED qstate
                                                  /\ /\ rq' = [rq EXCEPT ![self] = ww[self].q]
                                                     /\ stack' = [stack EXCEPT ![self] = << [ procedure |->  "Reschedule",
                                                                                              pc        |->  "z_wk_ret",
                                                                                              rq        |->  rq[self] ] >>
                                                                                          \o stack[self]]
                                                  /\ pc' = [pc EXCEPT ![self] = "rq_core"]
                                                  /\ ww' = ww
                                       /\ UNCHANGED << jkind, dwSt, dwW, 
                                                       dblTaken, parkTok, 
                                                       strong, pwTaken, 
                                                       nextPoll, pjLive, sq, 
                                                       sj >>
                                  ELSE /\ IF ww[self].k = "PW"
                                             THEN /\ IF pwTaken[ww[self].d]
                                                        THEN /\ pc' = [pc EXCEPT ![self] = Head(stack[self]).pc]
                                                             /\ ww' = [ww EXCEPT ![self] = Head(stack[self]).ww]
                                                             /\ stack' = [stack EXCEPT ![self] = Tail(stack[self])]
                                                             /\ UNCHANGED << jkind, 
                                                                             strong, 
                                                                             pwTaken, 
                                                                             nextPoll, 
                                                                             pjLive, 
                                                                             sq, 
                                                                             sj >>
                                                        ELSE /\ pwTaken' = [pwTaken EXCEPT ![ww[self].d] = TRUE]
                                                             /\ IF strong[O(ww[self].d)] > 0
                                                                   THEN /\ strong' = [strong EXCEPT ![O(ww[self].d)] = strong[O(ww[self].d)] + 1]
                                                                        /\ jkind' = [jkind EXCEPT ![NewPoll(OpTab[ww[self].d].p)] = "fut"]
                                                                        /\ pjLive' = [pjLive EXCEPT ![NewPoll(OpTab[ww[self].d].p)] = TRUE]
                                                                        /\ nextPoll' = [nextPoll EXCEPT ![OpTab[ww[self].d].p] = nextPoll[OpTab[ww[self].d].p] + 1]
                                                                        /\ /\ sj' = [sj EXCEPT ![self] = NewPoll(OpTab[ww[self].d].p)]
                                                                           /\ sq' = [sq EXCEPT ![self] = O(ww[self].d)]
                                                                           /\ stack' = [stack EXCEPT ![self] = << [ procedure |->  "ScheduleJob",
                                                                                                                    pc        |->  "z_pw_after",
                                                                                                                    sq        |->  sq[self],
                                                                                                                    sj        |->  sj[self] ] >>
                                                                                                                \o stack[self]]
                                                                        /\ pc' = [pc EXCEPT ![self] = "sj_push"]
                                                                   ELSE /\ pc' = [pc EXCEPT ![self] = "pw_take"]
                                                                        /\ UNCHANGED << jkind, 
                                                                                        strong, 
                                                                                        nextPoll, 
                                                                                        pjLive, 
                                                                                        stack, 
                                                                                        sq, 
                                                                                        sj >>
                                                             /\ ww' = ww
                                                  /\ UNCHANGED << dwSt, dwW, 
                                                                  dblTaken, 
                                                                  parkTok >>
                                             ELSE /\ IF ww[self].k = "DW"
                                                        THEN /\ IF dwSt[ww[self].d] = "Will"
                                                                   THEN /\ LET w == dwW[ww[self].d] IN
                                                                             /\ dwSt' = [dwSt EXCEPT ![ww[self].d] = "Woken"]
                                                                             /\ dwW' = [dwW EXCEPT ![ww[self].d] = NoW]
                                                                             /\ IF IsLocking(w)
                                                                                   THEN /\ ww' = [ww EXCEPT ![self] = w]
                                                                                        /\ pc' = [pc EXCEPT ![self] = "wk_lock"]
                                                                                        /\ UNCHANGED << parkTok, 
                                                                                                        stack >>
                                                                                   ELSE /\ parkTok' = Unpark(parkTok, TaskOf(w))
                                                                                        /\ pc' = [pc EXCEPT ![self] = Head(stack[self]).pc]
                                                                                        /\ ww' = [ww EXCEPT ![self] = Head(stack[self]).ww]
                                                                                        /\ stack' = [stack EXCEPT ![self] = Tail(stack[self])]
                                                                   ELSE /\ dwSt' = [dwSt EXCEPT ![ww[self].d] = "Woken"]
                                                                        /\ pc' = [pc EXCEPT ![self] = Head(stack[self]).pc]
                                                                        /\ ww' = [ww EXCEPT ![self] = Head(stack[self]).ww]
                                                                        /\ stack' = [stack EXCEPT ![self] = Tail(stack[self])]
                                                                        /\ UNCHANGED << dwW, 
                                                                                        parkTok >>
                                                             /\ UNCHANGED dblTaken
                                                        ELSE /\ IF dblTaken[ww[self].d]
                                                                   THEN /\ pc' = [pc EXCEPT ![self] = Head(stack[self]).pc]
                                                                        /\ ww' = [ww EXCEPT ![self] = Head(stack[self]).ww]
                                                                        /\ stack' = [stack EXCEPT ![self] = Tail(stack[self])]
                                                                        /\ UNCHANGED dblTaken
                                                                   ELSE /\ dblTaken' = [dblTaken EXCEPT ![ww[self].d] = TRUE]
                                                                        /\ /\ stack' = [stack EXCEPT ![self] = << [ procedure |->  "Wake",
                                                                                                                    pc        |->  "z_wk_second",
                                                                                                                    ww        |->  ww[self] ] >>
                                                                                                                \o stack[self]]
                                                                           /\ ww' = [ww EXCEPT ![self] = dblW1[ww[self].d]]
                                                                        /\ pc' = [pc EXCEPT ![self] = "wk_lock"]
                                                             /\ UNCHANGED << dwSt, 
                                                                             dwW, 
                                                                             parkTok >>
                                                  /\ UNCHANGED << jkind, 
                                                                  strong, 
                                                                  pwTaken, 
                                                                  nextPoll, 
                                                                  pjLive, sq, 
                                                                  sj >>
                                       /\ UNCHANGED << qstate, rq >>
                 /\ UNCHANGED << qpoll, jobs, wakeBlocked, schedule, pthreads, 
                                 nspawned, palive, busy, busyLocked, inbox, 
                                 chanOpen, pfin, thrHeld, maxThreads, jaw, 
                                 fres, fwaker, gfired, gwaker, gthreads, 
                                 gwhist, dblW1, dblW2, nextDW, ready, cwait, 
                                 cnotif, cvHeld, sdres, jpanic, sfst, slotSt, 
                                 qrSent, qrWaker, dnState, susDropped, dnWaker, 
                                 barGen, myBar, cdone, rv, rwb, rneed, stres, 
                                 spName, dsl, atomic, ppPending, ppClosed, 
                                 ppNotify, ppNC, ppBP, ppDepth, ppAlive, 
                                 ppHeld, inItems, inClosed, inWaker, pollFn, 
                                 chuteFn, ppItem, ppStage, h, dead, sti, smax, 
                                 rsq, bown, bwk, bi, bcur, bw, bsp, jq, jj, 
                                 jwk, fj, dq, dj, oq, oop, omode, oj, yq, yop, 
                                 yclaimed, tq, top, af, wf, wop, sf, sctx, xf, 
                                 cop, kj, pp, pwk, np, nbp, nres, dp, pf, pctx, 
                                 pq, pj, pd, nq >>

z_wk_second(self) == /\ pc[self] = "z_wk_second"
                     /\ IF IsLocking(dblW2[ww[self].d])
                           THEN /\ ww' = [ww EXCEPT ![self] = dblW2[ww[self].d]]
                                /\ pc' = [pc EXCEPT ![self] = "wk_lock"]
                                /\ UNCHANGED << parkTok, stack >>
                           ELSE /\ parkTok' = Unpark(parkTok, TaskOf(dblW2[ww[self].d]))
                                /\ pc' = [pc EXCEPT ![self] = Head(stack[self]).pc]
                                /\ ww' = [ww EXCEPT ![self] = Head(stack[self]).ww]
                                /\ stack' = [stack EXCEPT ![self] = Tail(stack[self])]
                     /\ UNCHANGED << qstate, qpoll, jobs, wakeBlocked, 
                                     schedule, pthreads, nspawned, palive, 
                                     busy, busyLocked, inbox, chanOpen, pfin, 
                                     thrHeld, maxThreads, jkind, jaw, fres, 
                                     fwaker, gfired, gwaker, gthreads, gwhist, 
                                     dwSt, dwW, dblTaken, dblW1, dblW2, nextDW, 
                                     ready, cwait, cnotif, cvHeld, sdres, 
                                     jpanic, sfst, slotSt, qrSent, qrWaker, 
                                     dnState, susDropped, dnWaker, barGen, 
                                     myBar, cdone, rv, rwb, rneed, stres, 
                                     spName, dsl, atomic, strong, ppPending, 
                                     ppClosed, ppNotify, ppNC, ppBP, ppDepth, 
                                     ppAlive, ppHeld, inItems, inClosed, 
                                     inWaker, pollFn, chuteFn, pwTaken, 
                                     nextPoll, ppItem, pjLive, ppStage, h, 
                                     dead, sti, smax, rq, sq, sj, rsq, bown, 
                                     bwk, bi, bcur, bw, bsp, jq, jj, jwk, fj, 
                                     dq, dj, oq, oop, omode, oj, yq, yop, 
                                     yclaimed, tq, top, af, wf, wop, sf, sctx, 
                                     xf, cop, kj, pp, pwk, np, nbp, nres, dp, 
                                     pf, pctx, pq, pj, pd, nq >>

z_pw_after(self) == /\ pc[self] = "z_pw_after"
                    /\ strong' = [strong EXCEPT ![O(ww[self].d)] = strong[O(ww[self].d)] - 1]
                    /\ IF strong'[O(ww[self].d)] = 1 - 1
                          THEN /\ /\ stack' = [stack EXCEPT ![self] = << [ procedure |->  "Sync",
                                                                           pc        |->  "z_wk_ret",
                                                                           yclaimed  |->  yclaimed[self],
                                                                           yq        |->  yq[self],
                                                                           yop       |->  yop[self] ] >>
                                                                       \o stack[self]]
                                  /\ yop' = [yop EXCEPT ![self] = ChuteJob(OpTab[ww[self].d].p, "pipe_free")]
                                  /\ yq' = [yq EXCEPT ![self] = O(ww[self].d)]
                               /\ yclaimed' = [yclaimed EXCEPT ![self] = FALSE]
                               /\ pc' = [pc EXCEPT ![self] = "sy_decide"]
                               /\ ww' = ww
                          ELSE /\ pc' = [pc EXCEPT ![self] = Head(stack[self]).pc]
                               /\ ww' = [ww EXCEPT ![self] = Head(stack[self]).ww]
                               /\ stack' = [stack EXCEPT ![self] = Tail(stack[self])]
                               /\ UNCHANGED << yq, yop, yclaimed >>
                    /\ UNCHANGED << qstate, qpoll, jobs, wakeBlocked, schedule, 
                                    pthreads, nspawned, palive, busy, 
                                    busyLocked, inbox, chanOpen, pfin, thrHeld, 
                                    maxThreads, jkind, jaw, fres, fwaker, 
                                    gfired, gwaker, gthreads, gwhist, dwSt, 
                                    dwW, dblTaken, dblW1, dblW2, nextDW, ready, 
                                    cwait, cnotif, cvHeld, sdres, jpanic, sfst, 
                                    slotSt, qrSent, qrWaker, dnState, 
                                    susDropped, dnWaker, parkTok, barGen, 
                                    myBar, cdone, rv, rwb, rneed, stres, 
                                    spName, dsl, atomic, ppPending, ppClosed, 
                                    ppNotify, ppNC, ppBP, ppDepth, ppAlive, 
                                    ppHeld, inItems, inClosed, inWaker, pollFn, 
                                    chuteFn, pwTaken, nextPoll, ppItem, pjLive, 
                                    ppStage, h, dead, sti, smax, rq, sq, sj, 
                                    rsq, bown, bwk, bi, bcur, bw, bsp, jq, jj, 
                                    jwk, fj, dq, dj, oq, oop, omode, oj, tq, 
                                    top, af, wf, wop, sf, sctx, xf, cop, kj, 
                                    pp, pwk, np, nbp, nres, dp, pf, pctx, pq, 
                                    pj, pd, nq >>

pw_take(self) == /\ pc[self] = "pw_take"
                 /\ chuteFn' = [chuteFn EXCEPT ![OpTab[ww[self].d].p] = pollFn[OpTab[ww[self].d].p]]
                 /\ pollFn' = [pollFn EXCEPT ![OpTab[ww[self].d].p] = FALSE]
                 /\ jkind' = [jkind EXCEPT ![ChuteJob(OpTab[ww[self].d].p, "chute_dropfn")] = "plain"]
                 /\ /\ sj' = [sj EXCEPT ![self] = ChuteJob(OpTab[ww[self].d].p, "chute_dropfn")]
                    /\ sq' = [sq EXCEPT ![self] = Chute]
                    /\ stack' = [stack EXCEPT ![self] = << [ procedure |->  "ScheduleJob",
                                                             pc        |->  "z_wk_ret",
                                                             sq        |->  sq[self],
                                                             sj        |->  sj[self] ] >>
                                                         \o stack[self]]
                 /\ pc' = [pc EXCEPT ![self] = "sj_push"]
                 /\ UNCHANGED << qstate, qpoll, jobs, wakeBlocked, schedule, 
                                 pthreads, nspawned, palive, busy, busyLocked, 
                                 inbox, chanOpen, pfin, thrHeld, maxThreads, 
                                 jaw, fres, fwaker, gfired, gwaker, gthreads, 
                                 gwhist, dwSt, dwW, dblTaken, dblW1, dblW2, 
                                 nextDW, ready, cwait, cnotif, cvHeld, sdres, 
                                 jpanic, sfst, slotSt, qrSent, qrWaker, 
                                 dnState, susDropped, dnWaker, parkTok, barGen, 
                                 myBar, cdone, rv, rwb, rneed, stres, spName, 
                                 dsl, atomic, strong, ppPending, ppClosed, 
                                 ppNotify, ppNC, ppBP, ppDepth, ppAlive, 
                                 ppHeld, inItems, inClosed, inWaker, pwTaken, 
                                 nextPoll, ppItem, pjLive, ppStage, h, dead, 
                                 sti, smax, rq, ww, rsq, bown, bwk, bi, bcur, 
                                 bw, bsp, jq, jj, jwk, fj, dq, dj, oq, oop, 
                                 omode, oj, yq, yop, yclaimed, tq, top, af, wf, 
                                 wop, sf, sctx, xf, cop, kj, pp, pwk, np, nbp, 
                                 nres, dp, pf, pctx, pq, pj, pd, nq >>

z_wk_ret(self) == /\ pc[self] = "z_wk_ret"
                  /\ pc' = [pc EXCEPT ![self] = Head(stack[self]).pc]
                  /\ ww' = [ww EXCEPT ![self] = Head(stack[self]).ww]
                  /\ stack' = [stack EXCEPT ![self] = Tail(stack[self])]
                  /\ UNCHANGED << qstate, qpoll, jobs, wakeBlocked, schedule, 
                                  pthreads, nspawned, palive, busy, busyLocked, 
                                  inbox, chanOpen, pfin, thrHeld, maxThreads, 
                                  jkind, jaw, fres, fwaker, gfired, gwaker, 
                                  gthreads, gwhist, dwSt, dwW, dblTaken, dblW1, 
                                  dblW2, nextDW, ready, cwait, cnotif, cvHeld, 
                                  sdres, jpanic, sfst, slotSt, qrSent, qrWaker, 
                                  dnState, susDropped, dnWaker, parkTok, 
                                  barGen, myBar, cdone, rv, rwb, rneed, stres, 
                                  spName, dsl, atomic, strong, ppPending, 
                                  ppClosed, ppNotify, ppNC, ppBP, ppDepth, 
                                  ppAlive, ppHeld, inItems, inClosed, inWaker, 
                                  pollFn, chuteFn, pwTaken, nextPoll, ppItem, 
                                  pjLive, ppStage, h, dead, sti, smax, rq, sq, 
                                  sj, rsq, bown, bwk, bi, bcur, bw, bsp, jq, 
                                  jj, jwk, fj, dq, dj, oq, oop, omode, oj, yq, 
                                  yop, yclaimed, tq, top, af, wf, wop, sf, 
                                  sctx, xf, cop, kj, pp, pwk, np, nbp, nres, 
                                  dp, pf, pctx, pq, pj, pd, nq >>

Wake(self) == wk_lock(self) \/ z_wk_second(self) \/ z_pw_after(self)
                 \/ pw_take(self) \/ z_wk_ret(self)

rb_step(self) == /\ pc[self] = "rb_step"
                 /\ IF bown[self] # 0 /\ jaw[bown[self]] > 0
                       THEN /\ IF AwItem(bown[self]) < 0
                                  THEN /\ pc' = [pc EXCEPT ![self] = "z_pollaw"]
                                  ELSE /\ pc' = [pc EXCEPT ![self] = "z_finish"]
                            /\ UNCHANGED << h, bi, bcur >>
                       ELSE /\ IF bi[self] < Len(rsq[self])
                                  THEN /\ bcur' = [bcur EXCEPT ![self] = rsq[self][bi[self] + 1]]
                                       /\ h' = (LET hc == ObsCall(IF bi[self] > 0 THEN ObsRet(h, self, rsq[self][bi[self]], rv[self]) ELSE h, self, rsq[self][bi[self] + 1])
                                                IN  IF K(rsq[self][bi[self] + 1]) = "try_sync"
                                                    THEN ObsTryRest(hc, rsq[self][bi[self] + 1], qstate[O(rsq[self][bi[self] + 1])] = "Idle" /\ jobs[O(rsq[self][bi[self] + 1])] = << >> /\ wakeBlocked[O(rsq[self][bi[self] + 1])] = << >>)
                                                    ELSE hc)
                                       /\ bi' = [bi EXCEPT ![self] = bi[self] + 1]
                                       /\ pc' = [pc EXCEPT ![self] = "z_dispatch"]
                                  ELSE /\ IF bi[self] > 0
                                             THEN /\ h' = ObsRet(h, self, rsq[self][bi[self]], rv[self])
                                             ELSE /\ TRUE
                                                  /\ h' = h
                                       /\ bi' = [bi EXCEPT ![self] = bi[self] + 1]
                                       /\ pc' = [pc EXCEPT ![self] = "z_finish"]
                                       /\ bcur' = bcur
                 /\ UNCHANGED << qstate, qpoll, jobs, wakeBlocked, schedule, 
                                 pthreads, nspawned, palive, busy, busyLocked, 
                                 inbox, chanOpen, pfin, thrHeld, maxThreads, 
                                 jkind, jaw, fres, fwaker, gfired, gwaker, 
                                 gthreads, gwhist, dwSt, dwW, dblTaken, dblW1, 
                                 dblW2, nextDW, ready, cwait, cnotif, cvHeld, 
                                 sdres, jpanic, sfst, slotSt, qrSent, qrWaker, 
                                 dnState, susDropped, dnWaker, parkTok, barGen, 
                                 myBar, cdone, rv, rwb, rneed, stres, spName, 
                                 dsl, atomic, strong, ppPending, ppClosed, 
                                 ppNotify, ppNC, ppBP, ppDepth, ppAlive, 
                                 ppHeld, inItems, inClosed, inWaker, pollFn, 
                                 chuteFn, pwTaken, nextPoll, ppItem, pjLive, 
                                 ppStage, stack, dead, sti, smax, rq, sq, sj, 
                                 ww, rsq, bown, bwk, bw, bsp, jq, jj, jwk, fj, 
                                 dq, dj, oq, oop, omode, oj, yq, yop, yclaimed, 
                                 tq, top, af, wf, wop, sf, sctx, xf, cop, kj, 
                                 pp, pwk, np, nbp, nres, dp, pf, pctx, pq, pj, 
                                 pd, nq >>

z_finish(self) == /\ pc[self] = "z_finish"
                  /\ IF bown[self] = 0
                        THEN /\ pc' = [pc EXCEPT ![self] = Head(stack[self]).pc]
                             /\ bi' = [bi EXCEPT ![self] = Head(stack[self]).bi]
                             /\ bcur' = [bcur EXCEPT ![self] = Head(stack[self]).bcur]
                             /\ bw' = [bw EXCEPT ![self] = Head(stack[self]).bw]
                             /\ bsp' = [bsp EXCEPT ![self] = Head(stack[self]).bsp]
                             /\ rsq' = [rsq EXCEPT ![self] = Head(stack[self]).rsq]
                             /\ bown' = [bown EXCEPT ![self] = Head(stack[self]).bown]
                             /\ bwk' = [bwk EXCEPT ![self] = Head(stack[self]).bwk]
                             /\ stack' = [stack EXCEPT ![self] = Tail(stack[self])]
                             /\ UNCHANGED << jaw, gwaker, gthreads, gwhist, 
                                             sdres, jpanic, rv, h >>
                        ELSE /\ IF OpTab[bown[self]].block # 0 /\ OpTab[bown[self]].block \notin gfired
                                   THEN /\ gthreads' = [gthreads EXCEPT ![OpTab[bown[self]].block] = gthreads[OpTab[bown[self]].block] \cup {self}]
                                        /\ pc' = [pc EXCEPT ![self] = "rb_block"]
                                        /\ UNCHANGED << jaw, gwaker, gwhist, 
                                                        sdres, jpanic, rv, h, 
                                                        stack, rsq, bown, bwk, 
                                                        bi, bcur, bw, bsp >>
                                   ELSE /\ IF jaw[bown[self]] < Len(Aw(bown[self]))
                                              THEN /\ LET k == jaw[bown[self]] + 1 IN
                                                        /\ jaw' = [jaw EXCEPT ![bown[self]] = k]
                                                        /\ IF Aw(bown[self])[k] < 0 \/ Aw(bown[self])[k] \in gfired
                                                              THEN /\ bi' = [bi EXCEPT ![self] = Len(rsq[self]) + 1]
                                                                   /\ pc' = [pc EXCEPT ![self] = "rb_step"]
                                                                   /\ UNCHANGED << gwaker, 
                                                                                   gwhist, 
                                                                                   rv, 
                                                                                   stack, 
                                                                                   rsq, 
                                                                                   bown, 
                                                                                   bwk, 
                                                                                   bcur, 
                                                                                   bw, 
                                                                                   bsp >>
                                                              ELSE /\ gwaker' = [gwaker EXCEPT ![Aw(bown[self])[k]] = bwk[self]]
                                                                   /\ gwhist' = [gwhist EXCEPT ![Aw(bown[self])[k]] = Append(gwhist[Aw(bown[self])[k]], bwk[self])]
                                                                   /\ rv' = [rv EXCEPT ![self] = 5]
                                                                   /\ pc' = [pc EXCEPT ![self] = Head(stack[self]).pc]
                                                                   /\ bi' = [bi EXCEPT ![self] = Head(stack[self]).bi]
                                                                   /\ bcur' = [bcur EXCEPT ![self] = Head(stack[self]).bcur]
                                                                   /\ bw' = [bw EXCEPT ![self] = Head(stack[self]).bw]
                                                                   /\ bsp' = [bsp EXCEPT ![self] = Head(stack[self]).bsp]
                                                                   /\ rsq' = [rsq EXCEPT ![self] = Head(stack[self]).rsq]
                                                                   /\ bown' = [bown EXCEPT ![self] = Head(stack[self]).bown]
                                                                   /\ bwk' = [bwk EXCEPT ![self] = Head(stack[self]).bwk]
                                                                   /\ stack' = [stack EXCEPT ![self] = Tail(stack[self])]
                                                   /\ UNCHANGED << sdres, 
                                                                   jpanic, h >>
                                              ELSE /\ IF OpTab[bown[self]].panic
                                                         THEN /\ h' = ObsPanic(h, self, bown[self])
                                                              /\ jpanic' = [jpanic EXCEPT ![bown[self]] = TRUE]
                                                              /\ rv' = [rv EXCEPT ![self] = 9]
                                                              /\ pc' = [pc EXCEPT ![self] = Head(stack[self]).pc]
                                                              /\ bi' = [bi EXCEPT ![self] = Head(stack[self]).bi]
                                                              /\ bcur' = [bcur EXCEPT ![self] = Head(stack[self]).bcur]
                                                              /\ bw' = [bw EXCEPT ![self] = Head(stack[self]).bw]
                                                              /\ bsp' = [bsp EXCEPT ![self] = Head(stack[self]).bsp]
                                                              /\ rsq' = [rsq EXCEPT ![self] = Head(stack[self]).rsq]
                                                              /\ bown' = [bown EXCEPT ![self] = Head(stack[self]).bown]
                                                              /\ bwk' = [bwk EXCEPT ![self] = Head(stack[self]).bwk]
                                                              /\ stack' = [stack EXCEPT ![self] = Tail(stack[self])]
                                                              /\ sdres' = sdres
                                                         ELSE /\ h' = ObsEnd(h, self, bown[self])
                                                              /\ IF jkind[bown[self]] = "syncdrain"
                                                                    THEN /\ sdres' = [sdres EXCEPT ![bown[self]] = TRUE]
                                                                    ELSE /\ TRUE
                                                                         /\ sdres' = sdres
                                                              /\ rv' = [rv EXCEPT ![self] = 0]
                                                              /\ pc' = [pc EXCEPT ![self] = Head(stack[self]).pc]
                                                              /\ bi' = [bi EXCEPT ![self] = Head(stack[self]).bi]
                                                              /\ bcur' = [bcur EXCEPT ![self] = Head(stack[self]).bcur]
                                                              /\ bw' = [bw EXCEPT ![self] = Head(stack[self]).bw]
                                                              /\ bsp' = [bsp EXCEPT ![self] = Head(stack[self]).bsp]
                                                              /\ rsq' = [rsq EXCEPT ![self] = Head(stack[self]).rsq]
                                                              /\ bown' = [bown EXCEPT ![self] = Head(stack[self]).bown]
                                                              /\ bwk' = [bwk EXCEPT ![self] = Head(stack[self]).bwk]
                                                              /\ stack' = [stack EXCEPT ![self] = Tail(stack[self])]
                                                              /\ UNCHANGED jpanic
                                                   /\ UNCHANGED << jaw, gwaker, 
                                                                   gwhist >>
                                        /\ UNCHANGED gthreads
                  /\ UNCHANGED << qstate, qpoll, jobs, wakeBlocked, schedule, 
                                  pthreads, nspawned, palive, busy, busyLocked, 
                                  inbox, chanOpen, pfin, thrHeld, maxThreads, 
                                  jkind, fres, fwaker, gfired, dwSt, dwW, 
                                  dblTaken, dblW1, dblW2, nextDW, ready, cwait, 
                                  cnotif, cvHeld, sfst, slotSt, qrSent, 
                                  qrWaker, dnState, susDropped, dnWaker, 
                                  parkTok, barGen, myBar, cdone, rwb, rneed, 
                                  stres, spName, dsl, atomic, strong, 
                                  ppPending, ppClosed, ppNotify, ppNC, ppBP, 
                                  ppDepth, ppAlive, ppHeld, inItems, inClosed, 
                                  inWaker, pollFn, chuteFn, pwTaken, nextPoll, 
                                  ppItem, pjLive, ppStage, dead, sti, smax, rq, 
                                  sq, sj, ww, jq, jj, jwk, fj, dq, dj, oq, oop, 
                                  omode, oj, yq, yop, yclaimed, tq, top, af, 
                                  wf, wop, sf, sctx, xf, cop, kj, pp, pwk, np, 
                                  nbp, nres, dp, pf, pctx, pq, pj, pd, nq >>

z_pollaw(self) == /\ pc[self] = "z_pollaw"
                  /\ IF K(0 - AwItem(bown[self])) = "fsync"
                        THEN /\ /\ sctx' = [sctx EXCEPT ![self] = bwk[self]]
                                /\ sf' = [sf EXCEPT ![self] = 0 - AwItem(bown[self])]
                                /\ stack' = [stack EXCEPT ![self] = << [ procedure |->  "PollSync",
                                                                         pc        |->  "z_pollaw_after",
                                                                         sf        |->  sf[self],
                                                                         sctx      |->  sctx[self] ] >>
                                                                     \o stack[self]]
                             /\ pc' = [pc EXCEPT ![self] = "z_ps"]
                             /\ UNCHANGED << pf, pctx, pq, pj, pd >>
                        ELSE /\ /\ pctx' = [pctx EXCEPT ![self] = bwk[self]]
                                /\ pf' = [pf EXCEPT ![self] = 0 - AwItem(bown[self])]
                                /\ stack' = [stack EXCEPT ![self] = << [ procedure |->  "PollFuture",
                                                                         pc        |->  "z_pollaw_after",
                                                                         pq        |->  pq[self],
                                                                         pj        |->  pj[self],
                                                                         pd        |->  pd[self],
                                                                         pf        |->  pf[self],
                                                                         pctx      |->  pctx[self] ] >>
                                                                     \o stack[self]]
                             /\ pq' = [pq EXCEPT ![self] = 0]
                             /\ pj' = [pj EXCEPT ![self] = 0]
                             /\ pd' = [pd EXCEPT ![self] = 0]
                             /\ pc' = [pc EXCEPT ![self] = "pf_decide"]
                             /\ UNCHANGED << sf, sctx >>
                  /\ UNCHANGED << qstate, qpoll, jobs, wakeBlocked, schedule, 
                                  pthreads, nspawned, palive, busy, busyLocked, 
                                  inbox, chanOpen, pfin, thrHeld, maxThreads, 
                                  jkind, jaw, fres, fwaker, gfired, gwaker, 
                                  gthreads, gwhist, dwSt, dwW, dblTaken, dblW1, 
                                  dblW2, nextDW, ready, cwait, cnotif, cvHeld, 
                                  sdres, jpanic, sfst, slotSt, qrSent, qrWaker, 
                                  dnState, susDropped, dnWaker, parkTok, 
                                  barGen, myBar, cdone, rv, rwb, rneed, stres, 
                                  spName, dsl, atomic, strong, ppPending, 
                                  ppClosed, ppNotify, ppNC, ppBP, ppDepth, 
                                  ppAlive, ppHeld, inItems, inClosed, inWaker, 
                                  pollFn, chuteFn, pwTaken, nextPoll, ppItem, 
                                  pjLive, ppStage, h, dead, sti, smax, rq, sq, 
                                  sj, ww, rsq, bown, bwk, bi, bcur, bw, bsp, 
                                  jq, jj, jwk, fj, dq, dj, oq, oop, omode, oj, 
                                  yq, yop, yclaimed, tq, top, af, wf, wop, xf, 
                                  cop, kj, pp, pwk, np, nbp, nres, dp, nq >>

z_pollaw_after(self) == /\ pc[self] = "z_pollaw_after"
                        /\ IF rv[self] = 5
                              THEN /\ pc' = [pc EXCEPT ![self] = Head(stack[self]).pc]
                                   /\ bi' = [bi EXCEPT ![self] = Head(stack[self]).bi]
                                   /\ bcur' = [bcur EXCEPT ![self] = Head(stack[self]).bcur]
                                   /\ bw' = [bw EXCEPT ![self] = Head(stack[self]).bw]
                                   /\ bsp' = [bsp EXCEPT ![self] = Head(stack[self]).bsp]
                                   /\ rsq' = [rsq EXCEPT ![self] = Head(stack[self]).rsq]
                                   /\ bown' = [bown EXCEPT ![self] = Head(stack[self]).bown]
                                   /\ bwk' = [bwk EXCEPT ![self] = Head(stack[self]).bwk]
                                   /\ stack' = [stack EXCEPT ![self] = Tail(stack[self])]
                                   /\ h' = h
                              ELSE /\ IF rv[self] \in {0, 3, 4}
                                         THEN /\ h' = ObsResolved(h, self, 0 - AwItem(bown[self]), rv[self])
                                              /\ pc' = [pc EXCEPT ![self] = "z_finish"]
                                         ELSE /\ pc' = [pc EXCEPT ![self] = "z_finish"]
                                              /\ h' = h
                                   /\ UNCHANGED << stack, rsq, bown, bwk, bi, 
                                                   bcur, bw, bsp >>
                        /\ UNCHANGED << qstate, qpoll, jobs, wakeBlocked, 
                                        schedule, pthreads, nspawned, palive, 
                                        busy, busyLocked, inbox, chanOpen, 
                                        pfin, thrHeld, maxThreads, jkind, jaw, 
                                        fres, fwaker, gfired, gwaker, gthreads, 
                                        gwhist, dwSt, dwW, dblTaken, dblW1, 
                                        dblW2, nextDW, ready, cwait, cnotif, 
                                        cvHeld, sdres, jpanic, sfst, slotSt, 
                                        qrSent, qrWaker, dnState, susDropped, 
                                        dnWaker, parkTok, barGen, myBar, cdone, 
                                        rv, rwb, rneed, stres, spName, dsl, 
                                        atomic, strong, ppPending, ppClosed, 
                                        ppNotify, ppNC, ppBP, ppDepth, ppAlive, 
                                        ppHeld, inItems, inClosed, inWaker, 
                                        pollFn, chuteFn, pwTaken, nextPoll, 
                                        ppItem, pjLive, ppStage, dead, sti, 
                                        smax, rq, sq, sj, ww, jq, jj, jwk, fj, 
                                        dq, dj, oq, oop, omode, oj, yq, yop, 
                                        yclaimed, tq, top, af, wf, wop, sf, 
                                        sctx, xf, cop, kj, pp, pwk, np, nbp, 
                                        nres, dp, pf, pctx, pq, pj, pd, nq >>

z_drop_ret(self) == /\ pc[self] = "z_drop_ret"
                    /\ IF rv[self] = 2 /\ OpTab[bcur[self]].then = "unwinding"
                          THEN /\ rv' = [rv EXCEPT ![self] = 0]
                          ELSE /\ TRUE
                               /\ rv' = rv
                    /\ pc' = [pc EXCEPT ![self] = "rb_step"]
                    /\ UNCHANGED << qstate, qpoll, jobs, wakeBlocked, schedule, 
                                    pthreads, nspawned, palive, busy, 
                                    busyLocked, inbox, chanOpen, pfin, thrHeld, 
                                    maxThreads, jkind, jaw, fres, fwaker, 
                                    gfired, gwaker, gthreads, gwhist, dwSt, 
                                    dwW, dblTaken, dblW1, dblW2, nextDW, ready, 
                                    cwait, cnotif, cvHeld, sdres, jpanic, sfst, 
                                    slotSt, qrSent, qrWaker, dnState, 
                                    susDropped, dnWaker, parkTok, barGen, 
                                    myBar, cdone, rwb, rneed, stres, spName, 
                                    dsl, atomic, strong, ppPending, ppClosed, 
                                    ppNotify, ppNC, ppBP, ppDepth, ppAlive, 
                                    ppHeld, inItems, inClosed, inWaker, pollFn, 
                                    chuteFn, pwTaken, nextPoll, ppItem, pjLive, 
                                    ppStage, h, stack, dead, sti, smax, rq, sq, 
                                    sj, ww, rsq, bown, bwk, bi, bcur, bw, bsp, 
                                    jq, jj, jwk, fj, dq, dj, oq, oop, omode, 
                                    oj, yq, yop, yclaimed, tq, top, af, wf, 
                                    wop, sf, sctx, xf, cop, kj, pp, pwk, np, 
                                    nbp, nres, dp, pf, pctx, pq, pj, pd, nq >>

rb_bar(self) == /\ pc[self] = "rb_bar"
                /\ myBar[self] < barGen \/ BarrierReady(self)
                /\ IF myBar[self] = barGen
                      THEN /\ barGen' = barGen + 1
                      ELSE /\ TRUE
                           /\ UNCHANGED barGen
                /\ rv' = [rv EXCEPT ![self] = 0]
                /\ pc' = [pc EXCEPT ![self] = "rb_step"]
                /\ UNCHANGED << qstate, qpoll, jobs, wakeBlocked, schedule, 
                                pthreads, nspawned, palive, busy, busyLocked, 
                                inbox, chanOpen, pfin, thrHeld, maxThreads, 
                                jkind, jaw, fres, fwaker, gfired, gwaker, 
                                gthreads, gwhist, dwSt, dwW, dblTaken, dblW1, 
                                dblW2, nextDW, ready, cwait, cnotif, cvHeld, 
                                sdres, jpanic, sfst, slotSt, qrSent, qrWaker, 
                                dnState, susDropped, dnWaker, parkTok, myBar, 
                                cdone, rwb, rneed, stres, spName, dsl, atomic, 
                                strong, ppPending, ppClosed, ppNotify, ppNC, 
                                ppBP, ppDepth, ppAlive, ppHeld, inItems, 
                                inClosed, inWaker, pollFn, chuteFn, pwTaken, 
                                nextPoll, ppItem, pjLive, ppStage, h, stack, 
                                dead, sti, smax, rq, sq, sj, ww, rsq, bown, 
                                bwk, bi, bcur, bw, bsp, jq, jj, jwk, fj, dq, 
                                dj, oq, oop, omode, oj, yq, yop, yclaimed, tq, 
                                top, af, wf, wop, sf, sctx, xf, cop, kj, pp, 
                                pwk, np, nbp, nres, dp, pf, pctx, pq, pj, pd, 
                                nq >>

rb_block(self) == /\ pc[self] = "rb_block"
                  /\ parkTok[self]
                  /\ parkTok' = [parkTok EXCEPT ![self] = FALSE]
                  /\ pc' = [pc EXCEPT ![self] = "z_finish"]
                  /\ UNCHANGED << qstate, qpoll, jobs, wakeBlocked, schedule, 
                                  pthreads, nspawned, palive, busy, busyLocked, 
                                  inbox, chanOpen, pfin, thrHeld, maxThreads, 
                                  jkind, jaw, fres, fwaker, gfired, gwaker, 
                                  gthreads, gwhist, dwSt, dwW, dblTaken, dblW1, 
                                  dblW2, nextDW, ready, cwait, cnotif, cvHeld, 
                                  sdres, jpanic, sfst, slotSt, qrSent, qrWaker, 
                                  dnState, susDropped, dnWaker, barGen, myBar, 
                                  cdone, rv, rwb, rneed, stres, spName, dsl, 
                                  atomic, strong, ppPending, ppClosed, 
                                  ppNotify, ppNC, ppBP, ppDepth, ppAlive, 
                                  ppHeld, inItems, inClosed, inWaker, pollFn, 
                                  chuteFn, pwTaken, nextPoll, ppItem, pjLive, 
                                  ppStage, h, stack, dead, sti, smax, rq, sq, 
                                  sj, ww, rsq, bown, bwk, bi, bcur, bw, bsp, 
                                  jq, jj, jwk, fj, dq, dj, oq, oop, omode, oj, 
                                  yq, yop, yclaimed, tq, top, af, wf, wop, sf, 
                                  sctx, xf, cop, kj, pp, pwk, np, nbp, nres, 
                                  dp, pf, pctx, pq, pj, pd, nq >>

z_dispatch(self) == /\ pc[self] = "z_dispatch"
                    /\ IF K(bcur[self]) = "desync"
                          THEN /\ jkind' = [jkind EXCEPT ![bcur[self]] = "plain"]
                               /\ /\ sj' = [sj EXCEPT ![self] = bcur[self]]
                                  /\ sq' = [sq EXCEPT ![self] = O(bcur[self])]
                                  /\ stack' = [stack EXCEPT ![self] = << [ procedure |->  "ScheduleJob",
                                                                           pc        |->  "rb_step",
                                                                           sq        |->  sq[self],
                                                                           sj        |->  sj[self] ] >>
                                                                       \o stack[self]]
                               /\ pc' = [pc EXCEPT ![self] = "sj_push"]
                               /\ UNCHANGED << nspawned, palive, chanOpen, 
                                               gfired, gwaker, gthreads, 
                                               parkTok, myBar, rv, spName, 
                                               strong, inItems, inClosed, 
                                               inWaker, h, ww, bw, bsp, yq, 
                                               yop, yclaimed, tq, top, af, wf, 
                                               wop, sf, sctx, xf, cop, np, nbp, 
                                               nres, dp, pf, pctx, pq, pj, pd >>
                          ELSE /\ IF K(bcur[self]) = "sync"
                                     THEN /\ /\ stack' = [stack EXCEPT ![self] = << [ procedure |->  "Sync",
                                                                                      pc        |->  "rb_step",
                                                                                      yclaimed  |->  yclaimed[self],
                                                                                      yq        |->  yq[self],
                                                                                      yop       |->  yop[self] ] >>
                                                                                  \o stack[self]]
                                             /\ yop' = [yop EXCEPT ![self] = bcur[self]]
                                             /\ yq' = [yq EXCEPT ![self] = O(bcur[self])]
                                          /\ yclaimed' = [yclaimed EXCEPT ![self] = FALSE]
                                          /\ pc' = [pc EXCEPT ![self] = "sy_decide"]
                                          /\ UNCHANGED << nspawned, palive, 
                                                          chanOpen, jkind, 
                                                          gfired, gwaker, 
                                                          gthreads, parkTok, 
                                                          myBar, rv, spName, 
                                                          strong, inItems, 
                                                          inClosed, inWaker, h, 
                                                          sq, sj, ww, bw, bsp, 
                                                          tq, top, af, wf, wop, 
                                                          sf, sctx, xf, cop, 
                                                          np, nbp, nres, dp, 
                                                          pf, pctx, pq, pj, pd >>
                                     ELSE /\ IF K(bcur[self]) = "drop_obj"
                                                THEN /\ strong' = [strong EXCEPT ![O(bcur[self])] = strong[O(bcur[self])] - 1]
                                                     /\ IF strong'[O(bcur[self])] = 1 - 1
                                                           THEN /\ /\ stack' = [stack EXCEPT ![self] = << [ procedure |->  "Sync",
                                                                                                            pc        |->  "z_drop_ret",
                                                                                                            yclaimed  |->  yclaimed[self],
                                                                                                            yq        |->  yq[self],
                                                                                                            yop       |->  yop[self] ] >>
                                                                                                        \o stack[self]]
                                                                   /\ yop' = [yop EXCEPT ![self] = bcur[self]]
                                                                   /\ yq' = [yq EXCEPT ![self] = O(bcur[self])]
                                                                /\ yclaimed' = [yclaimed EXCEPT ![self] = FALSE]
                                                                /\ pc' = [pc EXCEPT ![self] = "sy_decide"]
                                                                /\ rv' = rv
                                                           ELSE /\ rv' = [rv EXCEPT ![self] = 0]
                                                                /\ pc' = [pc EXCEPT ![self] = "rb_step"]
                                                                /\ UNCHANGED << stack, 
                                                                                yq, 
                                                                                yop, 
                                                                                yclaimed >>
                                                     /\ UNCHANGED << nspawned, 
                                                                     palive, 
                                                                     chanOpen, 
                                                                     jkind, 
                                                                     gfired, 
                                                                     gwaker, 
                                                                     gthreads, 
                                                                     parkTok, 
                                                                     myBar, 
                                                                     spName, 
                                                                     inItems, 
                                                                     inClosed, 
                                                                     inWaker, 
                                                                     h, sq, sj, 
                                                                     ww, bw, 
                                                                     bsp, tq, 
                                                                     top, af, 
                                                                     wf, wop, 
                                                                     sf, sctx, 
                                                                     xf, cop, 
                                                                     np, nbp, 
                                                                     nres, dp, 
                                                                     pf, pctx, 
                                                                     pq, pj, 
                                                                     pd >>
                                                ELSE /\ IF K(bcur[self]) \in {"pipe", "pipe_in"}
                                                           THEN /\ /\ cop' = [cop EXCEPT ![self] = bcur[self]]
                                                                   /\ stack' = [stack EXCEPT ![self] = << [ procedure |->  "PipeCreate",
                                                                                                            pc        |->  "rb_step",
                                                                                                            cop       |->  cop[self] ] >>
                                                                                                        \o stack[self]]
                                                                /\ pc' = [pc EXCEPT ![self] = "z_pcr1"]
                                                                /\ UNCHANGED << nspawned, 
                                                                                palive, 
                                                                                chanOpen, 
                                                                                jkind, 
                                                                                gfired, 
                                                                                gwaker, 
                                                                                gthreads, 
                                                                                parkTok, 
                                                                                myBar, 
                                                                                rv, 
                                                                                spName, 
                                                                                inItems, 
                                                                                inClosed, 
                                                                                inWaker, 
                                                                                h, 
                                                                                sq, 
                                                                                sj, 
                                                                                ww, 
                                                                                bw, 
                                                                                bsp, 
                                                                                tq, 
                                                                                top, 
                                                                                af, 
                                                                                wf, 
                                                                                wop, 
                                                                                sf, 
                                                                                sctx, 
                                                                                xf, 
                                                                                np, 
                                                                                nbp, 
                                                                                nres, 
                                                                                dp, 
                                                                                pf, 
                                                                                pctx, 
                                                                                pq, 
                                                                                pj, 
                                                                                pd >>
                                                           ELSE /\ IF K(bcur[self]) \in {"send", "close_input"}
                                                                      THEN /\ h' = (IF K(bcur[self]) = "send" THEN ObsSent(h, OpTab[bcur[self]].p, OpTab[bcur[self]].n) ELSE ObsInClosed(h, OpTab[bcur[self]].p))
                                                                           /\ IF K(bcur[self]) = "send"
                                                                                 THEN /\ inItems' = [inItems EXCEPT ![OpTab[bcur[self]].p] = Append(inItems[OpTab[bcur[self]].p], OpTab[bcur[self]].n)]
                                                                                      /\ UNCHANGED inClosed
                                                                                 ELSE /\ inClosed' = [inClosed EXCEPT ![OpTab[bcur[self]].p] = TRUE]
                                                                                      /\ UNCHANGED inItems
                                                                           /\ bw' = [bw EXCEPT ![self] = inWaker[OpTab[bcur[self]].p]]
                                                                           /\ inWaker' = [inWaker EXCEPT ![OpTab[bcur[self]].p] = NoW]
                                                                           /\ rv' = [rv EXCEPT ![self] = 0]
                                                                           /\ IF IsLocking(bw'[self])
                                                                                 THEN /\ /\ stack' = [stack EXCEPT ![self] = << [ procedure |->  "Wake",
                                                                                                                                  pc        |->  "rb_step",
                                                                                                                                  ww        |->  ww[self] ] >>
                                                                                                                              \o stack[self]]
                                                                                         /\ ww' = [ww EXCEPT ![self] = bw'[self]]
                                                                                      /\ pc' = [pc EXCEPT ![self] = "wk_lock"]
                                                                                 ELSE /\ pc' = [pc EXCEPT ![self] = "rb_step"]
                                                                                      /\ UNCHANGED << stack, 
                                                                                                      ww >>
                                                                           /\ UNCHANGED << nspawned, 
                                                                                           palive, 
                                                                                           chanOpen, 
                                                                                           jkind, 
                                                                                           gfired, 
                                                                                           gwaker, 
                                                                                           gthreads, 
                                                                                           parkTok, 
                                                                                           myBar, 
                                                                                           spName, 
                                                                                           sq, 
                                                                                           sj, 
                                                                                           bsp, 
                                                                                           tq, 
                                                                                           top, 
                                                                                           af, 
                                                                                           wf, 
                                                                                           wop, 
                                                                                           sf, 
                                                                                           sctx, 
                                                                                           xf, 
                                                                                           np, 
                                                                                           nbp, 
                                                                                           nres, 
                                                                                           dp, 
                                                                                           pf, 
                                                                                           pctx, 
                                                                                           pq, 
                                                                                           pj, 
                                                                                           pd >>
                                                                      ELSE /\ IF K(bcur[self]) = "next"
                                                                                 THEN /\ /\ np' = [np EXCEPT ![self] = OpTab[bcur[self]].p]
                                                                                         /\ stack' = [stack EXCEPT ![self] = << [ procedure |->  "PipeNext",
                                                                                                                                  pc        |->  "rb_step",
                                                                                                                                  nbp       |->  nbp[self],
                                                                                                                                  nres      |->  nres[self],
                                                                                                                                  np        |->  np[self] ] >>
                                                                                                                              \o stack[self]]
                                                                                      /\ nbp' = [nbp EXCEPT ![self] = NoW]
                                                                                      /\ nres' = [nres EXCEPT ![self] = 0]
                                                                                      /\ pc' = [pc EXCEPT ![self] = "cn_poll"]
                                                                                      /\ UNCHANGED << nspawned, 
                                                                                                      palive, 
                                                                                                      chanOpen, 
                                                                                                      jkind, 
                                                                                                      gfired, 
                                                                                                      gwaker, 
                                                                                                      gthreads, 
                                                                                                      parkTok, 
                                                                                                      myBar, 
                                                                                                      rv, 
                                                                                                      spName, 
                                                                                                      h, 
                                                                                                      sq, 
                                                                                                      sj, 
                                                                                                      ww, 
                                                                                                      bw, 
                                                                                                      bsp, 
                                                                                                      tq, 
                                                                                                      top, 
                                                                                                      af, 
                                                                                                      wf, 
                                                                                                      wop, 
                                                                                                      sf, 
                                                                                                      sctx, 
                                                                                                      xf, 
                                                                                                      dp, 
                                                                                                      pf, 
                                                                                                      pctx, 
                                                                                                      pq, 
                                                                                                      pj, 
                                                                                                      pd >>
                                                                                 ELSE /\ IF K(bcur[self]) = "drop_stream"
                                                                                            THEN /\ h' = PFlag(h, OpTab[bcur[self]].p, "stream_dropped")
                                                                                                 /\ /\ dp' = [dp EXCEPT ![self] = OpTab[bcur[self]].p]
                                                                                                    /\ stack' = [stack EXCEPT ![self] = << [ procedure |->  "PipeDrop",
                                                                                                                                             pc        |->  "rb_step",
                                                                                                                                             dp        |->  dp[self] ] >>
                                                                                                                                         \o stack[self]]
                                                                                                 /\ pc' = [pc EXCEPT ![self] = "ps_drop"]
                                                                                                 /\ UNCHANGED << nspawned, 
                                                                                                                 palive, 
                                                                                                                 chanOpen, 
                                                                                                                 jkind, 
                                                                                                                 gfired, 
                                                                                                                 gwaker, 
                                                                                                                 gthreads, 
                                                                                                                 parkTok, 
                                                                                                                 myBar, 
                                                                                                                 rv, 
                                                                                                                 spName, 
                                                                                                                 sq, 
                                                                                                                 sj, 
                                                                                                                 ww, 
                                                                                                                 bw, 
                                                                                                                 bsp, 
                                                                                                                 tq, 
                                                                                                                 top, 
                                                                                                                 af, 
                                                                                                                 wf, 
                                                                                                                 wop, 
                                                                                                                 sf, 
                                                                                                                 sctx, 
                                                                                                                 xf, 
                                                                                                                 pf, 
                                                                                                                 pctx, 
                                                                                                                 pq, 
                                                                                                                 pj, 
                                                                                                                 pd >>
                                                                                            ELSE /\ IF K(bcur[self]) = "set_depth"
                                                                                                       THEN /\ pc' = [pc EXCEPT ![self] = "pp_setdepth"]
                                                                                                            /\ UNCHANGED << nspawned, 
                                                                                                                            palive, 
                                                                                                                            chanOpen, 
                                                                                                                            jkind, 
                                                                                                                            gfired, 
                                                                                                                            gwaker, 
                                                                                                                            gthreads, 
                                                                                                                            parkTok, 
                                                                                                                            myBar, 
                                                                                                                            rv, 
                                                                                                                            spName, 
                                                                                                                            h, 
                                                                                                                            stack, 
                                                                                                                            sq, 
                                                                                                                            sj, 
                                                                                                                            ww, 
                                                                                                                            bw, 
                                                                                                                            bsp, 
                                                                                                                            tq, 
                                                                                                                            top, 
                                                                                                                            af, 
                                                                                                                            wf, 
                                                                                                                            wop, 
                                                                                                                            sf, 
                                                                                                                            sctx, 
                                                                                                                            xf, 
                                                                                                                            pf, 
                                                                                                                            pctx, 
                                                                                                                            pq, 
                                                                                                                            pj, 
                                                                                                                            pd >>
                                                                                                       ELSE /\ IF K(bcur[self]) = "try_sync"
                                                                                                                  THEN /\ /\ stack' = [stack EXCEPT ![self] = << [ procedure |->  "TrySync",
                                                                                                                                                                   pc        |->  "rb_step",
                                                                                                                                                                   tq        |->  tq[self],
                                                                                                                                                                   top       |->  top[self] ] >>
                                                                                                                                                               \o stack[self]]
                                                                                                                          /\ top' = [top EXCEPT ![self] = bcur[self]]
                                                                                                                          /\ tq' = [tq EXCEPT ![self] = O(bcur[self])]
                                                                                                                       /\ pc' = [pc EXCEPT ![self] = "ts_decide"]
                                                                                                                       /\ UNCHANGED << nspawned, 
                                                                                                                                       palive, 
                                                                                                                                       chanOpen, 
                                                                                                                                       jkind, 
                                                                                                                                       gfired, 
                                                                                                                                       gwaker, 
                                                                                                                                       gthreads, 
                                                                                                                                       parkTok, 
                                                                                                                                       myBar, 
                                                                                                                                       rv, 
                                                                                                                                       spName, 
                                                                                                                                       h, 
                                                                                                                                       sq, 
                                                                                                                                       sj, 
                                                                                                                                       ww, 
                                                                                                                                       bw, 
                                                                                                                                       bsp, 
                                                                                                                                       af, 
                                                                                                                                       wf, 
                                                                                                                                       wop, 
                                                                                                                                       sf, 
                                                                                                                                       sctx, 
                                                                                                                                       xf, 
                                                                                                                                       pf, 
                                                                                                                                       pctx, 
                                                                                                                                       pq, 
                                                                                                                                       pj, 
                                                                                                                                       pd >>
                                                                                                                  ELSE /\ IF K(bcur[self]) \in {"fdesync", "after"}
                                                                                                                             THEN /\ jkind' = [jkind EXCEPT ![bcur[self]] = "fut"]
                                                                                                                                  /\ /\ sj' = [sj EXCEPT ![self] = bcur[self]]
                                                                                                                                     /\ sq' = [sq EXCEPT ![self] = O(bcur[self])]
                                                                                                                                     /\ stack' = [stack EXCEPT ![self] = << [ procedure |->  "ScheduleJob",
                                                                                                                                                                              pc        |->  "z_then",
                                                                                                                                                                              sq        |->  sq[self],
                                                                                                                                                                              sj        |->  sj[self] ] >>
                                                                                                                                                                          \o stack[self]]
                                                                                                                                  /\ pc' = [pc EXCEPT ![self] = "sj_push"]
                                                                                                                                  /\ UNCHANGED << nspawned, 
                                                                                                                                                  palive, 
                                                                                                                                                  chanOpen, 
                                                                                                                                                  gfired, 
                                                                                                                                                  gwaker, 
                                                                                                                                                  gthreads, 
                                                                                                                                                  parkTok, 
                                                                                                                                                  myBar, 
                                                                                                                                                  rv, 
                                                                                                                                                  spName, 
                                                                                                                                                  h, 
                                                                                                                                                  ww, 
                                                                                                                                                  bw, 
                                                                                                                                                  bsp, 
                                                                                                                                                  af, 
                                                                                                                                                  wf, 
                                                                                                                                                  wop, 
                                                                                                                                                  sf, 
                                                                                                                                                  sctx, 
                                                                                                                                                  xf, 
                                                                                                                                                  pf, 
                                                                                                                                                  pctx, 
                                                                                                                                                  pq, 
                                                                                                                                                  pj, 
                                                                                                                                                  pd >>
                                                                                                                             ELSE /\ IF K(bcur[self]) = "suspend"
                                                                                                                                        THEN /\ jkind' = [jkind EXCEPT ![bcur[self]] = "susp"]
                                                                                                                                             /\ /\ sj' = [sj EXCEPT ![self] = bcur[self]]
                                                                                                                                                /\ sq' = [sq EXCEPT ![self] = O(bcur[self])]
                                                                                                                                                /\ stack' = [stack EXCEPT ![self] = << [ procedure |->  "ScheduleJob",
                                                                                                                                                                                         pc        |->  "z_then",
                                                                                                                                                                                         sq        |->  sq[self],
                                                                                                                                                                                         sj        |->  sj[self] ] >>
                                                                                                                                                                                     \o stack[self]]
                                                                                                                                             /\ pc' = [pc EXCEPT ![self] = "sj_push"]
                                                                                                                                             /\ UNCHANGED << nspawned, 
                                                                                                                                                             palive, 
                                                                                                                                                             chanOpen, 
                                                                                                                                                             gfired, 
                                                                                                                                                             gwaker, 
                                                                                                                                                             gthreads, 
                                                                                                                                                             parkTok, 
                                                                                                                                                             myBar, 
                                                                                                                                                             rv, 
                                                                                                                                                             spName, 
                                                                                                                                                             h, 
                                                                                                                                                             ww, 
                                                                                                                                                             bw, 
                                                                                                                                                             bsp, 
                                                                                                                                                             af, 
                                                                                                                                                             wf, 
                                                                                                                                                             wop, 
                                                                                                                                                             sf, 
                                                                                                                                                             sctx, 
                                                                                                                                                             xf, 
                                                                                                                                                             pf, 
                                                                                                                                                             pctx, 
                                                                                                                                                             pq, 
                                                                                                                                                             pj, 
                                                                                                                                                             pd >>
                                                                                                                                        ELSE /\ IF K(bcur[self]) = "fsync"
                                                                                                                                                   THEN /\ jkind' = [jkind EXCEPT ![bcur[self]] = "slot"]
                                                                                                                                                        /\ /\ sj' = [sj EXCEPT ![self] = bcur[self]]
                                                                                                                                                           /\ sq' = [sq EXCEPT ![self] = O(bcur[self])]
                                                                                                                                                           /\ stack' = [stack EXCEPT ![self] = << [ procedure |->  "ScheduleJob",
                                                                                                                                                                                                    pc        |->  "z_then",
                                                                                                                                                                                                    sq        |->  sq[self],
                                                                                                                                                                                                    sj        |->  sj[self] ] >>
                                                                                                                                                                                                \o stack[self]]
                                                                                                                                                        /\ pc' = [pc EXCEPT ![self] = "sj_push"]
                                                                                                                                                        /\ UNCHANGED << nspawned, 
                                                                                                                                                                        palive, 
                                                                                                                                                                        chanOpen, 
                                                                                                                                                                        gfired, 
                                                                                                                                                                        gwaker, 
                                                                                                                                                                        gthreads, 
                                                                                                                                                                        parkTok, 
                                                                                                                                                                        myBar, 
                                                                                                                                                                        rv, 
                                                                                                                                                                        spName, 
                                                                                                                                                                        h, 
                                                                                                                                                                        ww, 
                                                                                                                                                                        bw, 
                                                                                                                                                                        bsp, 
                                                                                                                                                                        af, 
                                                                                                                                                                        wf, 
                                                                                                                                                                        wop, 
                                                                                                                                                                        sf, 
                                                                                                                                                                        sctx, 
                                                                                                                                                                        xf, 
                                                                                                                                                                        pf, 
                                                                                                                                                                        pctx, 
                                                                                                                                                                        pq, 
                                                                                                                                                                        pj, 
                                                                                                                                                                        pd >>
                                                                                                                                                   ELSE /\ IF K(bcur[self]) = "dropf"
                                                                                                                                                              THEN /\ /\ stack' = [stack EXCEPT ![self] = << [ procedure |->  "DropFuture",
                                                                                                                                                                                                               pc        |->  "rb_step",
                                                                                                                                                                                                               xf        |->  xf[self] ] >>
                                                                                                                                                                                                           \o stack[self]]
                                                                                                                                                                      /\ xf' = [xf EXCEPT ![self] = OpTab[bcur[self]].f]
                                                                                                                                                                   /\ pc' = [pc EXCEPT ![self] = "z_df"]
                                                                                                                                                                   /\ UNCHANGED << nspawned, 
                                                                                                                                                                                   palive, 
                                                                                                                                                                                   chanOpen, 
                                                                                                                                                                                   gfired, 
                                                                                                                                                                                   gwaker, 
                                                                                                                                                                                   gthreads, 
                                                                                                                                                                                   parkTok, 
                                                                                                                                                                                   myBar, 
                                                                                                                                                                                   rv, 
                                                                                                                                                                                   spName, 
                                                                                                                                                                                   h, 
                                                                                                                                                                                   ww, 
                                                                                                                                                                                   bw, 
                                                                                                                                                                                   bsp, 
                                                                                                                                                                                   af, 
                                                                                                                                                                                   wf, 
                                                                                                                                                                                   wop, 
                                                                                                                                                                                   sf, 
                                                                                                                                                                                   sctx, 
                                                                                                                                                                                   pf, 
                                                                                                                                                                                   pctx, 
                                                                                                                                                                                   pq, 
                                                                                                                                                                                   pj, 
                                                                                                                                                                                   pd >>
                                                                                                                                                              ELSE /\ IF K(bcur[self]) = "barrier"
                                                                                                                                                                         THEN /\ myBar' = [myBar EXCEPT ![self] = barGen]
                                                                                                                                                                              /\ pc' = [pc EXCEPT ![self] = "rb_bar"]
                                                                                                                                                                              /\ UNCHANGED << nspawned, 
                                                                                                                                                                                              palive, 
                                                                                                                                                                                              chanOpen, 
                                                                                                                                                                                              gfired, 
                                                                                                                                                                                              gwaker, 
                                                                                                                                                                                              gthreads, 
                                                                                                                                                                                              parkTok, 
                                                                                                                                                                                              rv, 
                                                                                                                                                                                              spName, 
                                                                                                                                                                                              h, 
                                                                                                                                                                                              stack, 
                                                                                                                                                                                              ww, 
                                                                                                                                                                                              bw, 
                                                                                                                                                                                              bsp, 
                                                                                                                                                                                              af, 
                                                                                                                                                                                              wf, 
                                                                                                                                                                                              wop, 
                                                                                                                                                                                              sf, 
                                                                                                                                                                                              sctx, 
                                                                                                                                                                                              pf, 
                                                                                                                                                                                              pctx, 
                                                                                                                                                                                              pq, 
                                                                                                                                                                                              pj, 
                                                                                                                                                                                              pd >>
                                                                                                                                                                         ELSE /\ IF K(bcur[self]) \in {"fire", "resume", "drop_resumer"}
                                                                                                                                                                                    THEN /\ h' = (IF K(bcur[self]) = "fire" THEN ObsFire(h, GateOfOp(bcur[self])) ELSE ObsResume(h, self, OpTab[bcur[self]].f))
                                                                                                                                                                                         /\ gfired' = (gfired \cup {GateOfOp(bcur[self])})
                                                                                                                                                                                         /\ bw' = [bw EXCEPT ![self] = gwaker[GateOfOp(bcur[self])]]
                                                                                                                                                                                         /\ parkTok' = Unpark(parkTok, gthreads[GateOfOp(bcur[self])] \cup TaskOf(gwaker[GateOfOp(bcur[self])]))
                                                                                                                                                                                         /\ gwaker' = [gwaker EXCEPT ![GateOfOp(bcur[self])] = NoW]
                                                                                                                                                                                         /\ rv' = [rv EXCEPT ![self] = 0]
                                                                                                                                                                                         /\ IF IsLocking(bw'[self])
                                                                                                                                                                                               THEN /\ /\ stack' = [stack EXCEPT ![self] = << [ procedure |->  "Wake",
                                                                                                                                                                                                                                                pc        |->  "rb_step",
                                                                                                                                                                                                                                                ww        |->  ww[self] ] >>
                                                                                                                                                                                                                                            \o stack[self]]
                                                                                                                                                                                                       /\ ww' = [ww EXCEPT ![self] = bw'[self]]
                                                                                                                                                                                                    /\ pc' = [pc EXCEPT ![self] = "wk_lock"]
                                                                                                                                                                                               ELSE /\ pc' = [pc EXCEPT ![self] = "rb_step"]
                                                                                                                                                                                                    /\ UNCHANGED << stack, 
                                                                                                                                                                                                                    ww >>
                                                                                                                                                                                         /\ UNCHANGED << nspawned, 
                                                                                                                                                                                                         palive, 
                                                                                                                                                                                                         chanOpen, 
                                                                                                                                                                                                         gthreads, 
                                                                                                                                                                                                         spName, 
                                                                                                                                                                                                         bsp, 
                                                                                                                                                                                                         af, 
                                                                                                                                                                                                         wf, 
                                                                                                                                                                                                         wop, 
                                                                                                                                                                                                         sf, 
                                                                                                                                                                                                         sctx, 
                                                                                                                                                                                                         pf, 
                                                                                                                                                                                                         pctx, 
                                                                                                                                                                                                         pq, 
                                                                                                                                                                                                         pj, 
                                                                                                                                                                                                         pd >>
                                                                                                                                                                                    ELSE /\ IF K(bcur[self]) = "await"
                                                                                                                                                                                               THEN /\ /\ af' = [af EXCEPT ![self] = OpTab[bcur[self]].f]
                                                                                                                                                                                                       /\ stack' = [stack EXCEPT ![self] = << [ procedure |->  "Await",
                                                                                                                                                                                                                                                pc        |->  "rb_step",
                                                                                                                                                                                                                                                af        |->  af[self] ] >>
                                                                                                                                                                                                                                            \o stack[self]]
                                                                                                                                                                                                    /\ pc' = [pc EXCEPT ![self] = "z_aw_poll"]
                                                                                                                                                                                                    /\ UNCHANGED << nspawned, 
                                                                                                                                                                                                                    palive, 
                                                                                                                                                                                                                    chanOpen, 
                                                                                                                                                                                                                    gthreads, 
                                                                                                                                                                                                                    rv, 
                                                                                                                                                                                                                    spName, 
                                                                                                                                                                                                                    h, 
                                                                                                                                                                                                                    bsp, 
                                                                                                                                                                                                                    wf, 
                                                                                                                                                                                                                    wop, 
                                                                                                                                                                                                                    sf, 
                                                                                                                                                                                                                    sctx, 
                                                                                                                                                                                                                    pf, 
                                                                                                                                                                                                                    pctx, 
                                                                                                                                                                                                                    pq, 
                                                                                                                                                                                                                    pj, 
                                                                                                                                                                                                                    pd >>
                                                                                                                                                                                               ELSE /\ IF K(bcur[self]) = "poll"
                                                                                                                                                                                                          THEN /\ IF K(OpTab[bcur[self]].f) = "fsync"
                                                                                                                                                                                                                     THEN /\ /\ sctx' = [sctx EXCEPT ![self] = NoW]
                                                                                                                                                                                                                             /\ sf' = [sf EXCEPT ![self] = OpTab[bcur[self]].f]
                                                                                                                                                                                                                             /\ stack' = [stack EXCEPT ![self] = << [ procedure |->  "PollSync",
                                                                                                                                                                                                                                                                      pc        |->  "z_polled",
                                                                                                                                                                                                                                                                      sf        |->  sf[self],
                                                                                                                                                                                                                                                                      sctx      |->  sctx[self] ] >>
                                                                                                                                                                                                                                                                  \o stack[self]]
                                                                                                                                                                                                                          /\ pc' = [pc EXCEPT ![self] = "z_ps"]
                                                                                                                                                                                                                          /\ UNCHANGED << pf, 
                                                                                                                                                                                                                                          pctx, 
                                                                                                                                                                                                                                          pq, 
                                                                                                                                                                                                                                          pj, 
                                                                                                                                                                                                                                          pd >>
                                                                                                                                                                                                                     ELSE /\ /\ pctx' = [pctx EXCEPT ![self] = NoW]
                                                                                                                                                                                                                             /\ pf' = [pf EXCEPT ![self] = OpTab[bcur[self]].f]
                                                                                                                                                                                                                             /\ stack' = [stack EXCEPT ![self] = << [ procedure |->  "PollFuture",
                                                                                                                                                                                                                                                                      pc        |->  "z_polled",
                                                                                                                                                                                                                                                                      pq        |->  pq[self],
                                                                                                                                                                                                                                                                      pj        |->  pj[self],
                                                                                                                                                                                                                                                                      pd        |->  pd[self],
                                                                                                                                                                                                                                                                      pf        |->  pf[self],
                                                                                                                                                                                                                                                                      pctx      |->  pctx[self] ] >>
                                                                                                                                                                                                                                                                  \o stack[self]]
                                                                                                                                                                                                                          /\ pq' = [pq EXCEPT ![self] = 0]
                                                                                                                                                                                                                          /\ pj' = [pj EXCEPT ![self] = 0]
                                                                                                                                                                                                                          /\ pd' = [pd EXCEPT ![self] = 0]
                                                                                                                                                                                                                          /\ pc' = [pc EXCEPT ![self] = "pf_decide"]
                                                                                                                                                                                                                          /\ UNCHANGED << sf, 
                                                                                                                                                                                                                                          sctx >>
                                                                                                                                                                                                               /\ UNCHANGED << nspawned, 
                                                                                                                                                                                                                               palive, 
                                                                                                                                                                                                                               chanOpen, 
                                                                                                                                                                                                                               gthreads, 
                                                                                                                                                                                                                               rv, 
                                                                                                                                                                                                                               spName, 
                                                                                                                                                                                                                               h, 
                                                                                                                                                                                                                               bsp, 
                                                                                                                                                                                                                               wf, 
                                                                                                                                                                                                                               wop >>
                                                                                                                                                                                                          ELSE /\ IF K(bcur[self]) = "wait_sync"
                                                                                                                                                                                                                     THEN /\ /\ stack' = [stack EXCEPT ![self] = << [ procedure |->  "WaitSync",
                                                                                                                                                                                                                                                                      pc        |->  "rb_step",
                                                                                                                                                                                                                                                                      wf        |->  wf[self],
                                                                                                                                                                                                                                                                      wop       |->  wop[self] ] >>
                                                                                                                                                                                                                                                                  \o stack[self]]
                                                                                                                                                                                                                             /\ wf' = [wf EXCEPT ![self] = OpTab[bcur[self]].f]
                                                                                                                                                                                                                             /\ wop' = [wop EXCEPT ![self] = bcur[self]]
                                                                                                                                                                                                                          /\ pc' = [pc EXCEPT ![self] = "fs_take"]
                                                                                                                                                                                                                          /\ UNCHANGED << nspawned, 
                                                                                                                                                                                                                                          palive, 
                                                                                                                                                                                                                                          chanOpen, 
                                                                                                                                                                                                                                          gthreads, 
                                                                                                                                                                                                                                          rv, 
                                                                                                                                                                                                                                          spName, 
                                                                                                                                                                                                                                          h, 
                                                                                                                                                                                                                                          bsp >>
                                                                                                                                                                                                                     ELSE /\ IF K(bcur[self]) = "spur"
                                                                                                                                                                                                                                THEN /\ bsp' = [bsp EXCEPT ![self] = gwhist[OpTab[bcur[self]].g]]
                                                                                                                                                                                                                                     /\ rv' = [rv EXCEPT ![self] = 0]
                                                                                                                                                                                                                                     /\ pc' = [pc EXCEPT ![self] = "z_spur"]
                                                                                                                                                                                                                                     /\ UNCHANGED << nspawned, 
                                                                                                                                                                                                                                                     palive, 
                                                                                                                                                                                                                                                     chanOpen, 
                                                                                                                                                                                                                                                     gthreads, 
                                                                                                                                                                                                                                                     spName, 
                                                                                                                                                                                                                                                     h, 
                                                                                                                                                                                                                                                     stack >>
                                                                                                                                                                                                                                ELSE /\ IF K(bcur[self]) = "block_on"
                                                                                                                                                                                                                                           THEN /\ rv' = [rv EXCEPT ![self] = 0]
                                                                                                                                                                                                                                                /\ IF OpTab[bcur[self]].g \in gfired
                                                                                                                                                                                                                                                      THEN /\ pc' = [pc EXCEPT ![self] = "rb_step"]
                                                                                                                                                                                                                                                           /\ UNCHANGED gthreads
                                                                                                                                                                                                                                                      ELSE /\ gthreads' = [gthreads EXCEPT ![OpTab[bcur[self]].g] = gthreads[OpTab[bcur[self]].g] \cup {self}]
                                                                                                                                                                                                                                                           /\ pc' = [pc EXCEPT ![self] = "rb_wait"]
                                                                                                                                                                                                                                                /\ UNCHANGED << nspawned, 
                                                                                                                                                                                                                                                                palive, 
                                                                                                                                                                                                                                                                chanOpen, 
                                                                                                                                                                                                                                                                spName, 
                                                                                                                                                                                                                                                                h, 
                                                                                                                                                                                                                                                                stack >>
                                                                                                                                                                                                                                           ELSE /\ IF K(bcur[self]) = "set_max"
                                                                                                                                                                                                                                                      THEN /\ IF OpTab[bcur[self]].then = "real"
                                                                                                                                                                                                                                                                 THEN /\ h' = ObsSetMax(h, OpTab[bcur[self]].n)
                                                                                                                                                                                                                                                                 ELSE /\ TRUE
                                                                                                                                                                                                                                                                      /\ h' = h
                                                                                                                                                                                                                                                           /\ pc' = [pc EXCEPT ![self] = "mx_set"]
                                                                                                                                                                                                                                                           /\ UNCHANGED << nspawned, 
                                                                                                                                                                                                                                                                           palive, 
                                                                                                                                                                                                                                                                           chanOpen, 
                                                                                                                                                                                                                                                                           rv, 
                                                                                                                                                                                                                                                                           spName, 
                                                                                                                                                                                                                                                                           stack >>
                                                                                                                                                                                                                                                      ELSE /\ IF K(bcur[self]) = "despawn"
                                                                                                                                                                                                                                                                 THEN /\ stack' = [stack EXCEPT ![self] = << [ procedure |->  "Despawn",
                                                                                                                                                                                                                                                                                                               pc        |->  "rb_step" ] >>
                                                                                                                                                                                                                                                                                                           \o stack[self]]
                                                                                                                                                                                                                                                                      /\ pc' = [pc EXCEPT ![self] = "ds_max"]
                                                                                                                                                                                                                                                                      /\ UNCHANGED << nspawned, 
                                                                                                                                                                                                                                                                                      palive, 
                                                                                                                                                                                                                                                                                      chanOpen, 
                                                                                                                                                                                                                                                                                      rv, 
                                                                                                                                                                                                                                                                                      spName, 
                                                                                                                                                                                                                                                                                      h >>
                                                                                                                                                                                                                                                                 ELSE /\ IF K(bcur[self]) = "spawn_thread"
                                                                                                                                                                                                                                                                            THEN /\ h' = ObsSpawn(h, self, 1)
                                                                                                                                                                                                                                                                                 /\ spName' = [spName EXCEPT ![self] = PoolNames[nspawned + 1]]
                                                                                                                                                                                                                                                                                 /\ palive' = [palive EXCEPT ![PoolNames[nspawned + 1]] = TRUE]
                                                                                                                                                                                                                                                                                 /\ chanOpen' = [chanOpen EXCEPT ![PoolNames[nspawned + 1]] = TRUE]
                                                                                                                                                                                                                                                                                 /\ nspawned' = nspawned + 1
                                                                                                                                                                                                                                                                                 /\ pc' = [pc EXCEPT ![self] = "sp_push"]
                                                                                                                                                                                                                                                                                 /\ rv' = rv
                                                                                                                                                                                                                                                                            ELSE /\ rv' = [rv EXCEPT ![self] = 0]
                                                                                                                                                                                                                                                                                 /\ pc' = [pc EXCEPT ![self] = "rb_step"]
                                                                                                                                                                                                                                                                                 /\ UNCHANGED << nspawned, 
                                                                                                                                                                                                                                                                                                 palive, 
                                                                                                                                                                                                                                                                                                 chanOpen, 
                                                                                                                                                                                                                                                                                                 spName, 
                                                                                                                                                                                                                                                                                                 h >>
                                                                                                                                                                                                                                                                      /\ stack' = stack
                                                                                                                                                                                                                                                /\ UNCHANGED gthreads
                                                                                                                                                                                                                                     /\ bsp' = bsp
                                                                                                                                                                                                                          /\ UNCHANGED << wf, 
                                                                                                                                                                                                                                          wop >>
                                                                                                                                                                                                               /\ UNCHANGED << sf, 
                                                                                                                                                                                                                               sctx, 
                                                                                                                                                                                                                               pf, 
                                                                                                                                                                                                                               pctx, 
                                                                                                                                                                                                                               pq, 
                                                                                                                                                                                                                               pj, 
                                                                                                                                                                                                                               pd >>
                                                                                                                                                                                                    /\ af' = af
                                                                                                                                                                                         /\ UNCHANGED << gfired, 
                                                                                                                                                                                                         gwaker, 
                                                                                                                                                                                                         parkTok, 
                                                                                                                                                                                                         ww, 
                                                                                                                                                                                                         bw >>
                                                                                                                                                                              /\ myBar' = myBar
                                                                                                                                                                   /\ xf' = xf
                                                                                                                                                        /\ UNCHANGED << jkind, 
                                                                                                                                                                        sq, 
                                                                                                                                                                        sj >>
                                                                                                                       /\ UNCHANGED << tq, 
                                                                                                                                       top >>
                                                                                                 /\ dp' = dp
                                                                                      /\ UNCHANGED << np, 
                                                                                                      nbp, 
                                                                                                      nres >>
                                                                           /\ UNCHANGED << inItems, 
                                                                                           inClosed, 
                                                                                           inWaker >>
                                                                /\ cop' = cop
                                                     /\ UNCHANGED << strong, 
                                                                     yq, yop, 
                                                                     yclaimed >>
                    /\ UNCHANGED << qstate, qpoll, jobs, wakeBlocked, schedule, 
                                    pthreads, busy, busyLocked, inbox, pfin, 
                                    thrHeld, maxThreads, jaw, fres, fwaker, 
                                    gwhist, dwSt, dwW, dblTaken, dblW1, dblW2, 
                                    nextDW, ready, cwait, cnotif, cvHeld, 
                                    sdres, jpanic, sfst, slotSt, qrSent, 
                                    qrWaker, dnState, susDropped, dnWaker, 
                                    barGen, cdone, rwb, rneed, stres, dsl, 
                                    atomic, ppPending, ppClosed, ppNotify, 
                                    ppNC, ppBP, ppDepth, ppAlive, ppHeld, 
                                    pollFn, chuteFn, pwTaken, nextPoll, ppItem, 
                                    pjLive, ppStage, dead, sti, smax, rq, rsq, 
                                    bown, bwk, bi, bcur, jq, jj, jwk, fj, dq, 
                                    dj, oq, oop, omode, oj, kj, pp, pwk, nq >>

z_then(self) == /\ pc[self] = "z_then"
                /\ IF rv[self] = 0 /\ OpTab[bcur[self]].then = "await"
                      THEN /\ /\ af' = [af EXCEPT ![self] = bcur[self]]
                              /\ stack' = [stack EXCEPT ![self] = << [ procedure |->  "Await",
                                                                       pc        |->  "rb_step",
                                                                       af        |->  af[self] ] >>
                                                                   \o stack[self]]
                           /\ pc' = [pc EXCEPT ![self] = "z_aw_poll"]
                           /\ xf' = xf
                      ELSE /\ IF rv[self] = 0 /\ OpTab[bcur[self]].then = "drop" /\ K(bcur[self]) = "fsync"
                                 THEN /\ /\ stack' = [stack EXCEPT ![self] = << [ procedure |->  "DropFuture",
                                                                                  pc        |->  "rb_step",
                                                                                  xf        |->  xf[self] ] >>
                                                                              \o stack[self]]
                                         /\ xf' = [xf EXCEPT ![self] = bcur[self]]
                                      /\ pc' = [pc EXCEPT ![self] = "z_df"]
                                 ELSE /\ pc' = [pc EXCEPT ![self] = "rb_step"]
                                      /\ UNCHANGED << stack, xf >>
                           /\ af' = af
                /\ UNCHANGED << qstate, qpoll, jobs, wakeBlocked, schedule, 
                                pthreads, nspawned, palive, busy, busyLocked, 
                                inbox, chanOpen, pfin, thrHeld, maxThreads, 
                                jkind, jaw, fres, fwaker, gfired, gwaker, 
                                gthreads, gwhist, dwSt, dwW, dblTaken, dblW1, 
                                dblW2, nextDW, ready, cwait, cnotif, cvHeld, 
                                sdres, jpanic, sfst, slotSt, qrSent, qrWaker, 
                                dnState, susDropped, dnWaker, parkTok, barGen, 
                                myBar, cdone, rv, rwb, rneed, stres, spName, 
                                dsl, atomic, strong, ppPending, ppClosed, 
                                ppNotify, ppNC, ppBP, ppDepth, ppAlive, ppHeld, 
                                inItems, inClosed, inWaker, pollFn, chuteFn, 
                                pwTaken, nextPoll, ppItem, pjLive, ppStage, h, 
                                dead, sti, smax, rq, sq, sj, ww, rsq, bown, 
                                bwk, bi, bcur, bw, bsp, jq, jj, jwk, fj, dq, 
                                dj, oq, oop, omode, oj, yq, yop, yclaimed, tq, 
                                top, wf, wop, sf, sctx, cop, kj, pp, pwk, np, 
                                nbp, nres, dp, pf, pctx, pq, pj, pd, nq >>

z_polled(self) == /\ pc[self] = "z_polled"
                  /\ IF rv[self] \in {0, 3, 4}
                        THEN /\ h' = ObsResolved(h, self, OpTab[bcur[self]].f, rv[self])
                        ELSE /\ TRUE
                             /\ h' = h
                  /\ pc' = [pc EXCEPT ![self] = "rb_step"]
                  /\ UNCHANGED << qstate, qpoll, jobs, wakeBlocked, schedule, 
                                  pthreads, nspawned, palive, busy, busyLocked, 
                                  inbox, chanOpen, pfin, thrHeld, maxThreads, 
                                  jkind, jaw, fres, fwaker, gfired, gwaker, 
                                  gthreads, gwhist, dwSt, dwW, dblTaken, dblW1, 
                                  dblW2, nextDW, ready, cwait, cnotif, cvHeld, 
                                  sdres, jpanic, sfst, slotSt, qrSent, qrWaker, 
                                  dnState, susDropped, dnWaker, parkTok, 
                                  barGen, myBar, cdone, rv, rwb, rneed, stres, 
                                  spName, dsl, atomic, strong, ppPending, 
                                  ppClosed, ppNotify, ppNC, ppBP, ppDepth, 
                                  ppAlive, ppHeld, inItems, inClosed, inWaker, 
                                  pollFn, chuteFn, pwTaken, nextPoll, ppItem, 
                                  pjLive, ppStage, stack, dead, sti, smax, rq, 
                                  sq, sj, ww, rsq, bown, bwk, bi, bcur, bw, 
                                  bsp, jq, jj, jwk, fj, dq, dj, oq, oop, omode, 
                                  oj, yq, yop, yclaimed, tq, top, af, wf, wop, 
                                  sf, sctx, xf, cop, kj, pp, pwk, np, nbp, 
                                  nres, dp, pf, pctx, pq, pj, pd, nq >>

pp_setdepth(self) == /\ pc[self] = "pp_setdepth"
                     /\ ppDepth' = [ppDepth EXCEPT ![OpTab[bcur[self]].p] = OpTab[bcur[self]].n]
                     /\ rv' = [rv EXCEPT ![self] = 0]
                     /\ pc' = [pc EXCEPT ![self] = "rb_step"]
                     /\ UNCHANGED << qstate, qpoll, jobs, wakeBlocked, 
                                     schedule, pthreads, nspawned, palive, 
                                     busy, busyLocked, inbox, chanOpen, pfin, 
                                     thrHeld, maxThreads, jkind, jaw, fres, 
                                     fwaker, gfired, gwaker, gthreads, gwhist, 
                                     dwSt, dwW, dblTaken, dblW1, dblW2, nextDW, 
                                     ready, cwait, cnotif, cvHeld, sdres, 
                                     jpanic, sfst, slotSt, qrSent, qrWaker, 
                                     dnState, susDropped, dnWaker, parkTok, 
                                     barGen, myBar, cdone, rwb, rneed, stres, 
                                     spName, dsl, atomic, strong, ppPending, 
                                     ppClosed, ppNotify, ppNC, ppBP, ppAlive, 
                                     ppHeld, inItems, inClosed, inWaker, 
                                     pollFn, chuteFn, pwTaken, nextPoll, 
                                     ppItem, pjLive, ppStage, h, stack, dead, 
                                     sti, smax, rq, sq, sj, ww, rsq, bown, bwk, 
                                     bi, bcur, bw, bsp, jq, jj, jwk, fj, dq, 
                                     dj, oq, oop, omode, oj, yq, yop, yclaimed, 
                                     tq, top, af, wf, wop, sf, sctx, xf, cop, 
                                     kj, pp, pwk, np, nbp, nres, dp, pf, pctx, 
                                     pq, pj, pd, nq >>

z_spur(self) == /\ pc[self] = "z_spur"
                /\ IF bsp[self] = << >>
                      THEN /\ pc' = [pc EXCEPT ![self] = "rb_step"]
                           /\ UNCHANGED << parkTok, stack, ww, bw, bsp >>
                      ELSE /\ bw' = [bw EXCEPT ![self] = Head(bsp[self])]
                           /\ bsp' = [bsp EXCEPT ![self] = Tail(bsp[self])]
                           /\ IF IsLocking(bw'[self])
                                 THEN /\ /\ stack' = [stack EXCEPT ![self] = << [ procedure |->  "Wake",
                                                                                  pc        |->  "z_spur",
                                                                                  ww        |->  ww[self] ] >>
                                                                              \o stack[self]]
                                         /\ ww' = [ww EXCEPT ![self] = bw'[self]]
                                      /\ pc' = [pc EXCEPT ![self] = "wk_lock"]
                                      /\ UNCHANGED parkTok
                                 ELSE /\ parkTok' = Unpark(parkTok, TaskOf(bw'[self]))
                                      /\ pc' = [pc EXCEPT ![self] = "z_spur"]
                                      /\ UNCHANGED << stack, ww >>
                /\ UNCHANGED << qstate, qpoll, jobs, wakeBlocked, schedule, 
                                pthreads, nspawned, palive, busy, busyLocked, 
                                inbox, chanOpen, pfin, thrHeld, maxThreads, 
                                jkind, jaw, fres, fwaker, gfired, gwaker, 
                                gthreads, gwhist, dwSt, dwW, dblTaken, dblW1, 
                                dblW2, nextDW, ready, cwait, cnotif, cvHeld, 
                                sdres, jpanic, sfst, slotSt, qrSent, qrWaker, 
                                dnState, susDropped, dnWaker, barGen, myBar, 
                                cdone, rv, rwb, rneed, stres, spName, dsl, 
                                atomic, strong, ppPending, ppClosed, ppNotify, 
                                ppNC, ppBP, ppDepth, ppAlive, ppHeld, inItems, 
                                inClosed, inWaker, pollFn, chuteFn, pwTaken, 
                                nextPoll, ppItem, pjLive, ppStage, h, dead, 
                                sti, smax, rq, sq, sj, rsq, bown, bwk, bi, 
                                bcur, jq, jj, jwk, fj, dq, dj, oq, oop, omode, 
                                oj, yq, yop, yclaimed, tq, top, af, wf, wop, 
                                sf, sctx, xf, cop, kj, pp, pwk, np, nbp, nres, 
                                dp, pf, pctx, pq, pj, pd, nq >>

rb_wait(self) == /\ pc[self] = "rb_wait"
                 /\ parkTok[self]
                 /\ parkTok' = [parkTok EXCEPT ![self] = FALSE]
                 /\ IF OpTab[bcur[self]].g \in gfired
                       THEN /\ pc' = [pc EXCEPT ![self] = "rb_step"]
                            /\ UNCHANGED gthreads
                       ELSE /\ gthreads' = [gthreads EXCEPT ![OpTab[bcur[self]].g] = gthreads[OpTab[bcur[self]].g] \cup {self}]
                            /\ pc' = [pc EXCEPT ![self] = "rb_wait"]
                 /\ UNCHANGED << qstate, qpoll, jobs, wakeBlocked, schedule, 
                                 pthreads, nspawned, palive, busy, busyLocked, 
                                 inbox, chanOpen, pfin, thrHeld, maxThreads, 
                                 jkind, jaw, fres, fwaker, gfired, gwaker, 
                                 gwhist, dwSt, dwW, dblTaken, dblW1, dblW2, 
                                 nextDW, ready, cwait, cnotif, cvHeld, sdres, 
                                 jpanic, sfst, slotSt, qrSent, qrWaker, 
                                 dnState, susDropped, dnWaker, barGen, myBar, 
                                 cdone, rv, rwb, rneed, stres, spName, dsl, 
                                 atomic, strong, ppPending, ppClosed, ppNotify, 
                                 ppNC, ppBP, ppDepth, ppAlive, ppHeld, inItems, 
                                 inClosed, inWaker, pollFn, chuteFn, pwTaken, 
                                 nextPoll, ppItem, pjLive, ppStage, h, stack, 
                                 dead, sti, smax, rq, sq, sj, ww, rsq, bown, 
                                 bwk, bi, bcur, bw, bsp, jq, jj, jwk, fj, dq, 
                                 dj, oq, oop, omode, oj, yq, yop, yclaimed, tq, 
                                 top, af, wf, wop, sf, sctx, xf, cop, kj, pp, 
                                 pwk, np, nbp, nres, dp, pf, pctx, pq, pj, pd, 
                                 nq >>

sp_push(self) == /\ pc[self] = "sp_push"
                 /\ thrHeld = ""
                 /\ pthreads' = Append(pthreads, spName[self])
                 /\ rv' = [rv EXCEPT ![self] = 0]
                 /\ pc' = [pc EXCEPT ![self] = "rb_step"]
                 /\ UNCHANGED << qstate, qpoll, jobs, wakeBlocked, schedule, 
                                 nspawned, palive, busy, busyLocked, inbox, 
                                 chanOpen, pfin, thrHeld, maxThreads, jkind, 
                                 jaw, fres, fwaker, gfired, gwaker, gthreads, 
                                 gwhist, dwSt, dwW, dblTaken, dblW1, dblW2, 
                                 nextDW, ready, cwait, cnotif, cvHeld, sdres, 
                                 jpanic, sfst, slotSt, qrSent, qrWaker, 
                                 dnState, susDropped, dnWaker, parkTok, barGen, 
                                 myBar, cdone, rwb, rneed, stres, spName, dsl, 
                                 atomic, strong, ppPending, ppClosed, ppNotify, 
                                 ppNC, ppBP, ppDepth, ppAlive, ppHeld, inItems, 
                                 inClosed, inWaker, pollFn, chuteFn, pwTaken, 
                                 nextPoll, ppItem, pjLive, ppStage, h, stack, 
                                 dead, sti, smax, rq, sq, sj, ww, rsq, bown, 
                                 bwk, bi, bcur, bw, bsp, jq, jj, jwk, fj, dq, 
                                 dj, oq, oop, omode, oj, yq, yop, yclaimed, tq, 
                                 top, af, wf, wop, sf, sctx, xf, cop, kj, pp, 
                                 pwk, np, nbp, nres, dp, pf, pctx, pq, pj, pd, 
                                 nq >>

mx_set(self) == /\ pc[self] = "mx_set"
                /\ maxThreads' = OpTab[bcur[self]].n
                /\ IF OpTab[bcur[self]].then # "real"
                      THEN /\ h' = ObsSetMax(h, OpTab[bcur[self]].n)
                           /\ rv' = [rv EXCEPT ![self] = 0]
                           /\ pc' = [pc EXCEPT ![self] = "rb_step"]
                      ELSE /\ pc' = [pc EXCEPT ![self] = "z_mx_loop"]
                           /\ UNCHANGED << rv, h >>
                /\ UNCHANGED << qstate, qpoll, jobs, wakeBlocked, schedule, 
                                pthreads, nspawned, palive, busy, busyLocked, 
                                inbox, chanOpen, pfin, thrHeld, jkind, jaw, 
                                fres, fwaker, gfired, gwaker, gthreads, gwhist, 
                                dwSt, dwW, dblTaken, dblW1, dblW2, nextDW, 
                                ready, cwait, cnotif, cvHeld, sdres, jpanic, 
                                sfst, slotSt, qrSent, qrWaker, dnState, 
                                susDropped, dnWaker, parkTok, barGen, myBar, 
                                cdone, rwb, rneed, stres, spName, dsl, atomic, 
                                strong, ppPending, ppClosed, ppNotify, ppNC, 
                                ppBP, ppDepth, ppAlive, ppHeld, inItems, 
                                inClosed, inWaker, pollFn, chuteFn, pwTaken, 
                                nextPoll, ppItem, pjLive, ppStage, stack, dead, 
                                sti, smax, rq, sq, sj, ww, rsq, bown, bwk, bi, 
                                bcur, bw, bsp, jq, jj, jwk, fj, dq, dj, oq, 
                                oop, omode, oj, yq, yop, yclaimed, tq, top, af, 
                                wf, wop, sf, sctx, xf, cop, kj, pp, pwk, np, 
                                nbp, nres, dp, pf, pctx, pq, pj, pd, nq >>

z_mx_loop(self) == /\ pc[self] = "z_mx_loop"
                   /\ stack' = [stack EXCEPT ![self] = << [ procedure |->  "ScheduleThread",
                                                            pc        |->  "z_mx_chk",
                                                            dead      |->  dead[self],
                                                            sti       |->  sti[self],
                                                            smax      |->  smax[self] ] >>
                                                        \o stack[self]]
                   /\ dead' = [dead EXCEPT ![self] = << >>]
                   /\ sti' = [sti EXCEPT ![self] = 1]
                   /\ smax' = [smax EXCEPT ![self] = 0]
                   /\ pc' = [pc EXCEPT ![self] = "st_reap"]
                   /\ UNCHANGED << qstate, qpoll, jobs, wakeBlocked, schedule, 
                                   pthreads, nspawned, palive, busy, 
                                   busyLocked, inbox, chanOpen, pfin, thrHeld, 
                                   maxThreads, jkind, jaw, fres, fwaker, 
                                   gfired, gwaker, gthreads, gwhist, dwSt, dwW, 
                                   dblTaken, dblW1, dblW2, nextDW, ready, 
                                   cwait, cnotif, cvHeld, sdres, jpanic, sfst, 
                                   slotSt, qrSent, qrWaker, dnState, 
                                   susDropped, dnWaker, parkTok, barGen, myBar, 
                                   cdone, rv, rwb, rneed, stres, spName, dsl, 
                                   atomic, strong, ppPending, ppClosed, 
                                   ppNotify, ppNC, ppBP, ppDepth, ppAlive, 
                                   ppHeld, inItems, inClosed, inWaker, pollFn, 
                                   chuteFn, pwTaken, nextPoll, ppItem, pjLive, 
                                   ppStage, h, rq, sq, sj, ww, rsq, bown, bwk, 
                                   bi, bcur, bw, bsp, jq, jj, jwk, fj, dq, dj, 
                                   oq, oop, omode, oj, yq, yop, yclaimed, tq, 
                                   top, af, wf, wop, sf, sctx, xf, cop, kj, pp, 
                                   pwk, np, nbp, nres, dp, pf, pctx, pq, pj, 
                                   pd, nq >>

z_mx_chk(self) == /\ pc[self] = "z_mx_chk"
                  /\ IF stres[self]
                        THEN /\ pc' = [pc EXCEPT ![self] = "z_mx_loop"]
                             /\ rv' = rv
                        ELSE /\ rv' = [rv EXCEPT ![self] = 0]
                             /\ pc' = [pc EXCEPT ![self] = "rb_step"]
                  /\ UNCHANGED << qstate, qpoll, jobs, wakeBlocked, schedule, 
                                  pthreads, nspawned, palive, busy, busyLocked, 
                                  inbox, chanOpen, pfin, thrHeld, maxThreads, 
                                  jkind, jaw, fres, fwaker, gfired, gwaker, 
                                  gthreads, gwhist, dwSt, dwW, dblTaken, dblW1, 
                                  dblW2, nextDW, ready, cwait, cnotif, cvHeld, 
                                  sdres, jpanic, sfst, slotSt, qrSent, qrWaker, 
                                  dnState, susDropped, dnWaker, parkTok, 
                                  barGen, myBar, cdone, rwb, rneed, stres, 
                                  spName, dsl, atomic, strong, ppPending, 
                                  ppClosed, ppNotify, ppNC, ppBP, ppDepth, 
                                  ppAlive, ppHeld, inItems, inClosed, inWaker, 
                                  pollFn, chuteFn, pwTaken, nextPoll, ppItem, 
                                  pjLive, ppStage, h, stack, dead, sti, smax, 
                                  rq, sq, sj, ww, rsq, bown, bwk, bi, bcur, bw, 
                                  bsp, jq, jj, jwk, fj, dq, dj, oq, oop, omode, 
                                  oj, yq, yop, yclaimed, tq, top, af, wf, wop, 
                                  sf, sctx, xf, cop, kj, pp, pwk, np, nbp, 
                                  nres, dp, pf, pctx, pq, pj, pd, nq >>

RunOps(self) == rb_step(self) \/ z_finish(self) \/ z_pollaw(self)
                   \/ z_pollaw_after(self) \/ z_drop_ret(self)
                   \/ rb_bar(self) \/ rb_block(self) \/ z_dispatch(self)
                   \/ z_then(self) \/ z_polled(self) \/ pp_setdepth(self)
                   \/ z_spur(self) \/ rb_wait(self) \/ sp_push(self)
                   \/ mx_set(self) \/ z_mx_loop(self) \/ z_mx_chk(self)

z_rj(self) == /\ pc[self] = "z_rj"
              /\ IF K(jj[self]) \in {"desync", "sync", "try_sync"}
                    THEN /\ h' = ObsStart(h, self, jj[self])
                         /\ /\ bown' = [bown EXCEPT ![self] = jj[self]]
                            /\ bwk' = [bwk EXCEPT ![self] = jwk[self]]
                            /\ rsq' = [rsq EXCEPT ![self] = Body(jj[self])]
                            /\ stack' = [stack EXCEPT ![self] = << [ procedure |->  "RunOps",
                                                                     pc        |->  "z_rj_ret",
                                                                     bi        |->  bi[self],
                                                                     bcur      |->  bcur[self],
                                                                     bw        |->  bw[self],
                                                                     bsp       |->  bsp[self],
                                                                     rsq       |->  rsq[self],
                                                                     bown      |->  bown[self],
                                                                     bwk       |->  bwk[self] ] >>
                                                                 \o stack[self]]
                         /\ bi' = [bi EXCEPT ![self] = 0]
                         /\ bcur' = [bcur EXCEPT ![self] = 0]
                         /\ bw' = [bw EXCEPT ![self] = NoW]
                         /\ bsp' = [bsp EXCEPT ![self] = << >>]
                         /\ pc' = [pc EXCEPT ![self] = "rb_step"]
                         /\ UNCHANGED << gwaker, gwhist, sdres, slotSt, qrSent, 
                                         parkTok, rv, strong, chuteFn, ww, jq, 
                                         jj, jwk, yq, yop, yclaimed, kj, pp, 
                                         pwk >>
                    ELSE /\ IF K(jj[self]) = "fdesync"
                               THEN /\ IF jaw[jj[self]] = 0
                                          THEN /\ h' = ObsStart(h, self, jj[self])
                                               /\ /\ bown' = [bown EXCEPT ![self] = jj[self]]
                                                  /\ bwk' = [bwk EXCEPT ![self] = jwk[self]]
                                                  /\ rsq' = [rsq EXCEPT ![self] = Body(jj[self])]
                                                  /\ stack' = [stack EXCEPT ![self] = << [ procedure |->  "RunOps",
                                                                                           pc        |->  "z_rj_ret",
                                                                                           bi        |->  bi[self],
                                                                                           bcur      |->  bcur[self],
                                                                                           bw        |->  bw[self],
                                                                                           bsp       |->  bsp[self],
                                                                                           rsq       |->  rsq[self],
                                                                                           bown      |->  bown[self],
                                                                                           bwk       |->  bwk[self] ] >>
                                                                                       \o stack[self]]
                                               /\ bi' = [bi EXCEPT ![self] = 0]
                                               /\ bcur' = [bcur EXCEPT ![self] = 0]
                                               /\ bw' = [bw EXCEPT ![self] = NoW]
                                               /\ bsp' = [bsp EXCEPT ![self] = << >>]
                                               /\ pc' = [pc EXCEPT ![self] = "rb_step"]
                                               /\ UNCHANGED << gwaker, gwhist, 
                                                               rv, jq, jj, jwk >>
                                          ELSE /\ IF AwReady(jj[self])
                                                     THEN /\ /\ bown' = [bown EXCEPT ![self] = jj[self]]
                                                             /\ bwk' = [bwk EXCEPT ![self] = jwk[self]]
                                                             /\ rsq' = [rsq EXCEPT ![self] = Body(jj[self])]
                                                             /\ stack' = [stack EXCEPT ![self] = << [ procedure |->  "RunOps",
                                                                                                      pc        |->  "z_rj_ret",
                                                                                                      bi        |->  bi[self],
                                                                                                      bcur      |->  bcur[self],
                                                                                                      bw        |->  bw[self],
                                                                                                      bsp       |->  bsp[self],
                                                                                                      rsq       |->  rsq[self],
                                                                                                      bown      |->  bown[self],
                                                                                                      bwk       |->  bwk[self] ] >>
                                                                                                  \o stack[self]]
                                                          /\ bi' = [bi EXCEPT ![self] = 0]
                                                          /\ bcur' = [bcur EXCEPT ![self] = 0]
                                                          /\ bw' = [bw EXCEPT ![self] = NoW]
                                                          /\ bsp' = [bsp EXCEPT ![self] = << >>]
                                                          /\ pc' = [pc EXCEPT ![self] = "rb_step"]
                                                          /\ UNCHANGED << gwaker, 
                                                                          gwhist, 
                                                                          rv, 
                                                                          jq, 
                                                                          jj, 
                                                                          jwk >>
                                                     ELSE /\ gwaker' = [gwaker EXCEPT ![AwItem(jj[self])] = jwk[self]]
                                                          /\ gwhist' = [gwhist EXCEPT ![AwItem(jj[self])] = Append(gwhist[AwItem(jj[self])], jwk[self])]
                                                          /\ rv' = [rv EXCEPT ![self] = 5]
                                                          /\ pc' = [pc EXCEPT ![self] = Head(stack[self]).pc]
                                                          /\ jq' = [jq EXCEPT ![self] = Head(stack[self]).jq]
                                                          /\ jj' = [jj EXCEPT ![self] = Head(stack[self]).jj]
                                                          /\ jwk' = [jwk EXCEPT ![self] = Head(stack[self]).jwk]
                                                          /\ stack' = [stack EXCEPT ![self] = Tail(stack[self])]
                                                          /\ UNCHANGED << rsq, 
                                                                          bown, 
                                                                          bwk, 
                                                                          bi, 
                                                                          bcur, 
                                                                          bw, 
                                                                          bsp >>
                                               /\ h' = h
                                    /\ UNCHANGED << sdres, slotSt, qrSent, 
                                                    parkTok, strong, chuteFn, 
                                                    ww, yq, yop, yclaimed, kj, 
                                                    pp, pwk >>
                               ELSE /\ IF K(jj[self]) = "after"
                                          THEN /\ IF OpTab[jj[self]].g \in gfired
                                                     THEN /\ h' = ObsStart(h, self, jj[self])
                                                          /\ /\ bown' = [bown EXCEPT ![self] = jj[self]]
                                                             /\ bwk' = [bwk EXCEPT ![self] = jwk[self]]
                                                             /\ rsq' = [rsq EXCEPT ![self] = Body(jj[self])]
                                                             /\ stack' = [stack EXCEPT ![self] = << [ procedure |->  "RunOps",
                                                                                                      pc        |->  "z_rj_ret",
                                                                                                      bi        |->  bi[self],
                                                                                                      bcur      |->  bcur[self],
                                                                                                      bw        |->  bw[self],
                                                                                                      bsp       |->  bsp[self],
                                                                                                      rsq       |->  rsq[self],
                                                                                                      bown      |->  bown[self],
                                                                                                      bwk       |->  bwk[self] ] >>
                                                                                                  \o stack[self]]
                                                          /\ bi' = [bi EXCEPT ![self] = 0]
                                                          /\ bcur' = [bcur EXCEPT ![self] = 0]
                                                          /\ bw' = [bw EXCEPT ![self] = NoW]
                                                          /\ bsp' = [bsp EXCEPT ![self] = << >>]
                                                          /\ pc' = [pc EXCEPT ![self] = "rb_step"]
                                                          /\ UNCHANGED << gwaker, 
                                                                          gwhist, 
                                                                          rv, 
                                                                          jq, 
                                                                          jj, 
                                                                          jwk >>
                                                     ELSE /\ gwaker' = [gwaker EXCEPT ![OpTab[jj[self]].g] = jwk[self]]
                                                          /\ gwhist' = [gwhist EXCEPT ![OpTab[jj[self]].g] = Append(gwhist[OpTab[jj[self]].g], jwk[self])]
                                                          /\ rv' = [rv EXCEPT ![self] = 5]
                                                          /\ pc' = [pc EXCEPT ![self] = Head(stack[self]).pc]
                                                          /\ jq' = [jq EXCEPT ![self] = Head(stack[self]).jq]
                                                          /\ jj' = [jj EXCEPT ![self] = Head(stack[self]).jj]
                                                          /\ jwk' = [jwk EXCEPT ![self] = Head(stack[self]).jwk]
                                                          /\ stack' = [stack EXCEPT ![self] = Tail(stack[self])]
                                                          /\ UNCHANGED << h, 
                                                                          rsq, 
                                                                          bown, 
                                                                          bwk, 
                                                                          bi, 
                                                                          bcur, 
                                                                          bw, 
                                                                          bsp >>
                                               /\ UNCHANGED << sdres, slotSt, 
                                                               qrSent, parkTok, 
                                                               strong, chuteFn, 
                                                               ww, yq, yop, 
                                                               yclaimed, kj, 
                                                               pp, pwk >>
                                          ELSE /\ IF K(jj[self]) \in {"pipe", "pipe_in"}
                                                     THEN /\ IF jkind[jj[self]] = "syncdrain"
                                                                THEN /\ sdres' = [sdres EXCEPT ![jj[self]] = TRUE]
                                                                ELSE /\ TRUE
                                                                     /\ sdres' = sdres
                                                          /\ rv' = [rv EXCEPT ![self] = 0]
                                                          /\ pc' = [pc EXCEPT ![self] = Head(stack[self]).pc]
                                                          /\ jq' = [jq EXCEPT ![self] = Head(stack[self]).jq]
                                                          /\ jj' = [jj EXCEPT ![self] = Head(stack[self]).jj]
                                                          /\ jwk' = [jwk EXCEPT ![self] = Head(stack[self]).jwk]
                                                          /\ stack' = [stack EXCEPT ![self] = Tail(stack[self])]
                                                          /\ UNCHANGED << gwaker, 
                                                                          gwhist, 
                                                                          slotSt, 
                                                                          qrSent, 
                                                                          parkTok, 
                                                                          strong, 
                                                                          chuteFn, 
                                                                          h, 
                                                                          ww, 
                                                                          yq, 
                                                                          yop, 
                                                                          yclaimed, 
                                                                          kj, 
                                                                          pp, 
                                                                          pwk >>
                                                     ELSE /\ IF K(jj[self]) = "pipepoll"
                                                                THEN /\ IF ppStage[jj[self]] = 1 /\ OpTab[PipeOp(OpTab[jj[self]].p)].g \notin gfired
                                                                           THEN /\ gwaker' = [gwaker EXCEPT ![OpTab[PipeOp(OpTab[jj[self]].p)].g] = jwk[self]]
                                                                                /\ gwhist' = [gwhist EXCEPT ![OpTab[PipeOp(OpTab[jj[self]].p)].g] = Append(gwhist[OpTab[PipeOp(OpTab[jj[self]].p)].g], jwk[self])]
                                                                                /\ rv' = [rv EXCEPT ![self] = 5]
                                                                                /\ pc' = [pc EXCEPT ![self] = Head(stack[self]).pc]
                                                                                /\ jq' = [jq EXCEPT ![self] = Head(stack[self]).jq]
                                                                                /\ jj' = [jj EXCEPT ![self] = Head(stack[self]).jj]
                                                                                /\ jwk' = [jwk EXCEPT ![self] = Head(stack[self]).jwk]
                                                                                /\ stack' = [stack EXCEPT ![self] = Tail(stack[self])]
                                                                                /\ UNCHANGED << kj, 
                                                                                                pp, 
                                                                                                pwk >>
                                                                           ELSE /\ /\ kj' = [kj EXCEPT ![self] = jj[self]]
                                                                                   /\ pp' = [pp EXCEPT ![self] = OpTab[jj[self]].p]
                                                                                   /\ pwk' = [pwk EXCEPT ![self] = jwk[self]]
                                                                                   /\ stack' = [stack EXCEPT ![self] = << [ procedure |->  "PipePoll",
                                                                                                                            pc        |->  "z_pp_gc",
                                                                                                                            kj        |->  kj[self],
                                                                                                                            pp        |->  pp[self],
                                                                                                                            pwk       |->  pwk[self] ] >>
                                                                                                                        \o stack[self]]
                                                                                /\ pc' = [pc EXCEPT ![self] = "z_pp_entry"]
                                                                                /\ UNCHANGED << gwaker, 
                                                                                                gwhist, 
                                                                                                rv, 
                                                                                                jq, 
                                                                                                jj, 
                                                                                                jwk >>
                                                                     /\ UNCHANGED << sdres, 
                                                                                     slotSt, 
                                                                                     qrSent, 
                                                                                     parkTok, 
                                                                                     strong, 
                                                                                     chuteFn, 
                                                                                     h, 
                                                                                     ww, 
                                                                                     yq, 
                                                                                     yop, 
                                                                                     yclaimed >>
                                                                ELSE /\ IF K(jj[self]) = "chute_dropfn"
                                                                           THEN /\ IF chuteFn[OpTab[jj[self]].p]
                                                                                      THEN /\ h' = PFlag(PFlag(h, OpTab[jj[self]].p, "in_dropped"), OpTab[jj[self]].p, "closure_dropped")
                                                                                           /\ chuteFn' = [chuteFn EXCEPT ![OpTab[jj[self]].p] = FALSE]
                                                                                      ELSE /\ TRUE
                                                                                           /\ UNCHANGED << chuteFn, 
                                                                                                           h >>
                                                                                /\ rv' = [rv EXCEPT ![self] = 0]
                                                                                /\ pc' = [pc EXCEPT ![self] = Head(stack[self]).pc]
                                                                                /\ jq' = [jq EXCEPT ![self] = Head(stack[self]).jq]
                                                                                /\ jj' = [jj EXCEPT ![self] = Head(stack[self]).jj]
                                                                                /\ jwk' = [jwk EXCEPT ![self] = Head(stack[self]).jwk]
                                                                                /\ stack' = [stack EXCEPT ![self] = Tail(stack[self])]
                                                                                /\ UNCHANGED << gwaker, 
                                                                                                sdres, 
                                                                                                slotSt, 
                                                                                                qrSent, 
                                                                                                parkTok, 
                                                                                                strong, 
                                                                                                ww, 
                                                                                                yq, 
                                                                                                yop, 
                                                                                                yclaimed >>
                                                                           ELSE /\ IF K(jj[self]) = "chute_release"
                                                                                      THEN /\ strong' = [strong EXCEPT ![O(PipeOp(OpTab[jj[self]].p))] = strong[O(PipeOp(OpTab[jj[self]].p))] - 1]
                                                                                           /\ IF strong'[O(PipeOp(OpTab[jj[self]].p))] = 1 - 1
                                                                                                 THEN /\ /\ stack' = [stack EXCEPT ![self] = << [ procedure |->  "Sync",
                                                                                                                                                  pc        |->  "z_rj_ok",
                                                                                                                                                  yclaimed  |->  yclaimed[self],
                                                                                                                                                  yq        |->  yq[self],
                                                                                                                                                  yop       |->  yop[self] ] >>
                                                                                                                                              \o stack[self]]
                                                                                                         /\ yop' = [yop EXCEPT ![self] = ChuteJob(OpTab[jj[self]].p, "pipe_free")]
                                                                                                         /\ yq' = [yq EXCEPT ![self] = O(PipeOp(OpTab[jj[self]].p))]
                                                                                                      /\ yclaimed' = [yclaimed EXCEPT ![self] = FALSE]
                                                                                                      /\ pc' = [pc EXCEPT ![self] = "sy_decide"]
                                                                                                      /\ UNCHANGED << rv, 
                                                                                                                      jq, 
                                                                                                                      jj, 
                                                                                                                      jwk >>
                                                                                                 ELSE /\ rv' = [rv EXCEPT ![self] = 0]
                                                                                                      /\ pc' = [pc EXCEPT ![self] = Head(stack[self]).pc]
                                                                                                      /\ jq' = [jq EXCEPT ![self] = Head(stack[self]).jq]
                                                                                                      /\ jj' = [jj EXCEPT ![self] = Head(stack[self]).jj]
                                                                                                      /\ jwk' = [jwk EXCEPT ![self] = Head(stack[self]).jwk]
                                                                                                      /\ stack' = [stack EXCEPT ![self] = Tail(stack[self])]
                                                                                                      /\ UNCHANGED << yq, 
                                                                                                                      yop, 
                                                                                                                      yclaimed >>
                                                                                           /\ UNCHANGED << gwaker, 
                                                                                                           sdres, 
                                                                                                           slotSt, 
                                                                                                           qrSent, 
                                                                                                           parkTok, 
                                                                                                           h, 
                                                                                                           ww >>
                                                                                      ELSE /\ IF K(jj[self]) \in {"drop_obj", "pipe_free"}
                                                                                                 THEN /\ h' = ObsFreed(h, O(jj[self]))
                                                                                                      /\ IF jkind[jj[self]] = "syncdrain"
                                                                                                            THEN /\ sdres' = [sdres EXCEPT ![jj[self]] = TRUE]
                                                                                                            ELSE /\ TRUE
                                                                                                                 /\ sdres' = sdres
                                                                                                      /\ rv' = [rv EXCEPT ![self] = 0]
                                                                                                      /\ pc' = [pc EXCEPT ![self] = Head(stack[self]).pc]
                                                                                                      /\ jq' = [jq EXCEPT ![self] = Head(stack[self]).jq]
                                                                                                      /\ jj' = [jj EXCEPT ![self] = Head(stack[self]).jj]
                                                                                                      /\ jwk' = [jwk EXCEPT ![self] = Head(stack[self]).jwk]
                                                                                                      /\ stack' = [stack EXCEPT ![self] = Tail(stack[self])]
                                                                                                      /\ UNCHANGED << gwaker, 
                                                                                                                      slotSt, 
                                                                                                                      qrSent, 
                                                                                                                      parkTok, 
                                                                                                                      ww >>
                                                                                                 ELSE /\ IF K(jj[self]) = "wait_sync"
                                                                                                            THEN /\ pc' = [pc EXCEPT ![self] = "ws_take"]
                                                                                                                 /\ UNCHANGED << gwaker, 
                                                                                                                                 slotSt, 
                                                                                                                                 qrSent, 
                                                                                                                                 parkTok, 
                                                                                                                                 rv, 
                                                                                                                                 stack, 
                                                                                                                                 ww, 
                                                                                                                                 jq, 
                                                                                                                                 jj, 
                                                                                                                                 jwk >>
                                                                                                            ELSE /\ IF K(jj[self]) = "fsync"
                                                                                                                       THEN /\ IF slotSt[jj[self]] = 0
                                                                                                                                  THEN /\ slotSt' = [slotSt EXCEPT ![jj[self]] = 1]
                                                                                                                                       /\ qrSent' = [qrSent EXCEPT ![jj[self]] = TRUE]
                                                                                                                                       /\ IF IsLocking(qrWaker[jj[self]])
                                                                                                                                             THEN /\ /\ stack' = [stack EXCEPT ![self] = << [ procedure |->  "Wake",
                                                                                                                                                                                              pc        |->  "z_slot2",
                                                                                                                                                                                              ww        |->  ww[self] ] >>
                                                                                                                                                                                          \o stack[self]]
                                                                                                                                                     /\ ww' = [ww EXCEPT ![self] = qrWaker[jj[self]]]
                                                                                                                                                  /\ pc' = [pc EXCEPT ![self] = "wk_lock"]
                                                                                                                                                  /\ UNCHANGED parkTok
                                                                                                                                             ELSE /\ parkTok' = Unpark(parkTok, TaskOf(qrWaker[jj[self]]))
                                                                                                                                                  /\ pc' = [pc EXCEPT ![self] = "z_slot2"]
                                                                                                                                                  /\ UNCHANGED << stack, 
                                                                                                                                                                  ww >>
                                                                                                                                  ELSE /\ pc' = [pc EXCEPT ![self] = "z_slot2"]
                                                                                                                                       /\ UNCHANGED << slotSt, 
                                                                                                                                                       qrSent, 
                                                                                                                                                       parkTok, 
                                                                                                                                                       stack, 
                                                                                                                                                       ww >>
                                                                                                                            /\ UNCHANGED << gwaker, 
                                                                                                                                            rv, 
                                                                                                                                            jq, 
                                                                                                                                            jj, 
                                                                                                                                            jwk >>
                                                                                                                       ELSE /\ IF jaw[jj[self]] = 0
                                                                                                                                  THEN /\ pc' = [pc EXCEPT ![self] = "sus_signal"]
                                                                                                                                       /\ UNCHANGED << gwaker, 
                                                                                                                                                       rv, 
                                                                                                                                                       stack, 
                                                                                                                                                       jq, 
                                                                                                                                                       jj, 
                                                                                                                                                       jwk >>
                                                                                                                                  ELSE /\ IF OpTab[jj[self]].g \in gfired
                                                                                                                                             THEN /\ pc' = [pc EXCEPT ![self] = "sus_inner"]
                                                                                                                                                  /\ UNCHANGED << gwaker, 
                                                                                                                                                                  rv, 
                                                                                                                                                                  stack, 
                                                                                                                                                                  jq, 
                                                                                                                                                                  jj, 
                                                                                                                                                                  jwk >>
                                                                                                                                             ELSE /\ gwaker' = [gwaker EXCEPT ![OpTab[jj[self]].g] = jwk[self]]
                                                                                                                                                  /\ rv' = [rv EXCEPT ![self] = 5]
                                                                                                                                                  /\ pc' = [pc EXCEPT ![self] = Head(stack[self]).pc]
                                                                                                                                                  /\ jq' = [jq EXCEPT ![self] = Head(stack[self]).jq]
                                                                                                                                                  /\ jj' = [jj EXCEPT ![self] = Head(stack[self]).jj]
                                                                                                                                                  /\ jwk' = [jwk EXCEPT ![self] = Head(stack[self]).jwk]
                                                                                                                                                  /\ stack' = [stack EXCEPT ![self] = Tail(stack[self])]
                                                                                                                            /\ UNCHANGED << slotSt, 
                                                                                                                                            qrSent, 
                                                                                                                                            parkTok, 
                                                                                                                                            ww >>
                                                                                                      /\ UNCHANGED << sdres, 
                                                                                                                      h >>
                                                                                           /\ UNCHANGED << strong, 
                                                                                                           yq, 
                                                                                                           yop, 
                                                                                                           yclaimed >>
                                                                                /\ UNCHANGED chuteFn
                                                                     /\ UNCHANGED << gwhist, 
                                                                                     kj, 
                                                                                     pp, 
                                                                                     pwk >>
                                               /\ UNCHANGED << rsq, bown, bwk, 
                                                               bi, bcur, bw, 
                                                               bsp >>
              /\ UNCHANGED << qstate, qpoll, jobs, wakeBlocked, schedule, 
                              pthreads, nspawned, palive, busy, busyLocked, 
                              inbox, chanOpen, pfin, thrHeld, maxThreads, 
                              jkind, jaw, fres, fwaker, gfired, gthreads, dwSt, 
                              dwW, dblTaken, dblW1, dblW2, nextDW, ready, 
                              cwait, cnotif, cvHeld, jpanic, sfst, qrWaker, 
                              dnState, susDropped, dnWaker, barGen, myBar, 
                              cdone, rwb, rneed, stres, spName, dsl, atomic, 
                              ppPending, ppClosed, ppNotify, ppNC, ppBP, 
                              ppDepth, ppAlive, ppHeld, inItems, inClosed, 
                              inWaker, pollFn, pwTaken, nextPoll, ppItem, 
                              pjLive, ppStage, dead, sti, smax, rq, sq, sj, fj, 
                              dq, dj, oq, oop, omode, oj, tq, top, af, wf, wop, 
                              sf, sctx, xf, cop, np, nbp, nres, dp, pf, pctx, 
                              pq, pj, pd, nq >>

z_rj_ret(self) == /\ pc[self] = "z_rj_ret"
                  /\ pc' = [pc EXCEPT ![self] = Head(stack[self]).pc]
                  /\ jq' = [jq EXCEPT ![self] = Head(stack[self]).jq]
                  /\ jj' = [jj EXCEPT ![self] = Head(stack[self]).jj]
                  /\ jwk' = [jwk EXCEPT ![self] = Head(stack[self]).jwk]
                  /\ stack' = [stack EXCEPT ![self] = Tail(stack[self])]
                  /\ UNCHANGED << qstate, qpoll, jobs, wakeBlocked, schedule, 
                                  pthreads, nspawned, palive, busy, busyLocked, 
                                  inbox, chanOpen, pfin, thrHeld, maxThreads, 
                                  jkind, jaw, fres, fwaker, gfired, gwaker, 
                                  gthreads, gwhist, dwSt, dwW, dblTaken, dblW1, 
                                  dblW2, nextDW, ready, cwait, cnotif, cvHeld, 
                                  sdres, jpanic, sfst, slotSt, qrSent, qrWaker, 
                                  dnState, susDropped, dnWaker, parkTok, 
                                  barGen, myBar, cdone, rv, rwb, rneed, stres, 
                                  spName, dsl, atomic, strong, ppPending, 
                                  ppClosed, ppNotify, ppNC, ppBP, ppDepth, 
                                  ppAlive, ppHeld, inItems, inClosed, inWaker, 
                                  pollFn, chuteFn, pwTaken, nextPoll, ppItem, 
                                  pjLive, ppStage, h, dead, sti, smax, rq, sq, 
                                  sj, ww, rsq, bown, bwk, bi, bcur, bw, bsp, 
                                  fj, dq, dj, oq, oop, omode, oj, yq, yop, 
                                  yclaimed, tq, top, af, wf, wop, sf, sctx, xf, 
                                  cop, kj, pp, pwk, np, nbp, nres, dp, pf, 
                                  pctx, pq, pj, pd, nq >>

z_rj_ok(self) == /\ pc[self] = "z_rj_ok"
                 /\ rv' = [rv EXCEPT ![self] = 0]
                 /\ pc' = [pc EXCEPT ![self] = Head(stack[self]).pc]
                 /\ jq' = [jq EXCEPT ![self] = Head(stack[self]).jq]
                 /\ jj' = [jj EXCEPT ![self] = Head(stack[self]).jj]
                 /\ jwk' = [jwk EXCEPT ![self] = Head(stack[self]).jwk]
                 /\ stack' = [stack EXCEPT ![self] = Tail(stack[self])]
                 /\ UNCHANGED << qstate, qpoll, jobs, wakeBlocked, schedule, 
                                 pthreads, nspawned, palive, busy, busyLocked, 
                                 inbox, chanOpen, pfin, thrHeld, maxThreads, 
                                 jkind, jaw, fres, fwaker, gfired, gwaker, 
                                 gthreads, gwhist, dwSt, dwW, dblTaken, dblW1, 
                                 dblW2, nextDW, ready, cwait, cnotif, cvHeld, 
                                 sdres, jpanic, sfst, slotSt, qrSent, qrWaker, 
                                 dnState, susDropped, dnWaker, parkTok, barGen, 
                                 myBar, cdone, rwb, rneed, stres, spName, dsl, 
                                 atomic, strong, ppPending, ppClosed, ppNotify, 
                                 ppNC, ppBP, ppDepth, ppAlive, ppHeld, inItems, 
                                 inClosed, inWaker, pollFn, chuteFn, pwTaken, 
                                 nextPoll, ppItem, pjLive, ppStage, h, dead, 
                                 sti, smax, rq, sq, sj, ww, rsq, bown, bwk, bi, 
                                 bcur, bw, bsp, fj, dq, dj, oq, oop, omode, oj, 
                                 yq, yop, yclaimed, tq, top, af, wf, wop, sf, 
                                 sctx, xf, cop, kj, pp, pwk, np, nbp, nres, dp, 
                                 pf, pctx, pq, pj, pd, nq >>

z_pp_gc(self) == /\ pc[self] = "z_pp_gc"
                 /\ IF pollFn[OpTab[jj[self]].p] /\ rv[self] = 0 /\ ~(\/ HoldsCtx(inWaker[OpTab[jj[self]].p])
                                                                      \/ (CoreAlive(OpTab[jj[self]].p) /\ (HoldsCtx(ppNC[OpTab[jj[self]].p]) \/ HoldsCtx(ppBP[OpTab[jj[self]].p])))
                                                                      \/ \E j \in PollJobs(OpTab[jj[self]].p) \ {jj[self]} : pjLive[j])
                       THEN /\ pollFn' = [pollFn EXCEPT ![OpTab[jj[self]].p] = FALSE]
                            /\ h' = PFlag(PFlag(h, OpTab[jj[self]].p, "in_dropped"), OpTab[jj[self]].p, "closure_dropped")
                       ELSE /\ TRUE
                            /\ UNCHANGED << pollFn, h >>
                 /\ IF rv[self] # 5
                       THEN /\ pjLive' = [pjLive EXCEPT ![jj[self]] = FALSE]
                       ELSE /\ TRUE
                            /\ UNCHANGED pjLive
                 /\ pc' = [pc EXCEPT ![self] = Head(stack[self]).pc]
                 /\ jq' = [jq EXCEPT ![self] = Head(stack[self]).jq]
                 /\ jj' = [jj EXCEPT ![self] = Head(stack[self]).jj]
                 /\ jwk' = [jwk EXCEPT ![self] = Head(stack[self]).jwk]
                 /\ stack' = [stack EXCEPT ![self] = Tail(stack[self])]
                 /\ UNCHANGED << qstate, qpoll, jobs, wakeBlocked, schedule, 
                                 pthreads, nspawned, palive, busy, busyLocked, 
                                 inbox, chanOpen, pfin, thrHeld, maxThreads, 
                                 jkind, jaw, fres, fwaker, gfired, gwaker, 
                                 gthreads, gwhist, dwSt, dwW, dblTaken, dblW1, 
                                 dblW2, nextDW, ready, cwait, cnotif, cvHeld, 
                                 sdres, jpanic, sfst, slotSt, qrSent, qrWaker, 
                                 dnState, susDropped, dnWaker, parkTok, barGen, 
                                 myBar, cdone, rv, rwb, rneed, stres, spName, 
                                 dsl, atomic, strong, ppPending, ppClosed, 
                                 ppNotify, ppNC, ppBP, ppDepth, ppAlive, 
                                 ppHeld, inItems, inClosed, inWaker, chuteFn, 
                                 pwTaken, nextPoll, ppItem, ppStage, dead, sti, 
                                 smax, rq, sq, sj, ww, rsq, bown, bwk, bi, 
                                 bcur, bw, bsp, fj, dq, dj, oq, oop, omode, oj, 
                                 yq, yop, yclaimed, tq, top, af, wf, wop, sf, 
                                 sctx, xf, cop, kj, pp, pwk, np, nbp, nres, dp, 
                                 pf, pctx, pq, pj, pd, nq >>

z_slot2(self) == /\ pc[self] = "z_slot2"
                 /\ IF dnState[jj[self]] # "open"
                       THEN /\ rv' = [rv EXCEPT ![self] = 0]
                            /\ pc' = [pc EXCEPT ![self] = Head(stack[self]).pc]
                            /\ jq' = [jq EXCEPT ![self] = Head(stack[self]).jq]
                            /\ jj' = [jj EXCEPT ![self] = Head(stack[self]).jj]
                            /\ jwk' = [jwk EXCEPT ![self] = Head(stack[self]).jwk]
                            /\ stack' = [stack EXCEPT ![self] = Tail(stack[self])]
                            /\ UNCHANGED dnWaker
                       ELSE /\ dnWaker' = [dnWaker EXCEPT ![jj[self]] = jwk[self]]
                            /\ rv' = [rv EXCEPT ![self] = 5]
                            /\ pc' = [pc EXCEPT ![self] = Head(stack[self]).pc]
                            /\ jq' = [jq EXCEPT ![self] = Head(stack[self]).jq]
                            /\ jj' = [jj EXCEPT ![self] = Head(stack[self]).jj]
                            /\ jwk' = [jwk EXCEPT ![self] = Head(stack[self]).jwk]
                            /\ stack' = [stack EXCEPT ![self] = Tail(stack[self])]
                 /\ UNCHANGED << qstate, qpoll, jobs, wakeBlocked, schedule, 
                                 pthreads, nspawned, palive, busy, busyLocked, 
                                 inbox, chanOpen, pfin, thrHeld, maxThreads, 
                                 jkind, jaw, fres, fwaker, gfired, gwaker, 
                                 gthreads, gwhist, dwSt, dwW, dblTaken, dblW1, 
                                 dblW2, nextDW, ready, cwait, cnotif, cvHeld, 
                                 sdres, jpanic, sfst, slotSt, qrSent, qrWaker, 
                                 dnState, susDropped, parkTok, barGen, myBar, 
                                 cdone, rwb, rneed, stres, spName, dsl, atomic, 
                                 strong, ppPending, ppClosed, ppNotify, ppNC, 
                                 ppBP, ppDepth, ppAlive, ppHeld, inItems, 
                                 inClosed, inWaker, pollFn, chuteFn, pwTaken, 
                                 nextPoll, ppItem, pjLive, ppStage, h, dead, 
                                 sti, smax, rq, sq, sj, ww, rsq, bown, bwk, bi, 
                                 bcur, bw, bsp, fj, dq, dj, oq, oop, omode, oj, 
                                 yq, yop, yclaimed, tq, top, af, wf, wop, sf, 
                                 sctx, xf, cop, kj, pp, pwk, np, nbp, nres, dp, 
                                 pf, pctx, pq, pj, pd, nq >>

sus_signal(self) == /\ pc[self] = "sus_signal"
                    /\ LET w == fwaker[jj[self]] IN
                         /\ fres' = [fres EXCEPT ![jj[self]] = "some"]
                         /\ fwaker' = [fwaker EXCEPT ![jj[self]] = NoW]
                         /\ IF IsLocking(w)
                               THEN /\ /\ stack' = [stack EXCEPT ![self] = << [ procedure |->  "Wake",
                                                                                pc        |->  "sus_sigdrop",
                                                                                ww        |->  ww[self] ] >>
                                                                            \o stack[self]]
                                       /\ ww' = [ww EXCEPT ![self] = w]
                                    /\ pc' = [pc EXCEPT ![self] = "wk_lock"]
                                    /\ UNCHANGED parkTok
                               ELSE /\ parkTok' = Unpark(parkTok, TaskOf(w))
                                    /\ pc' = [pc EXCEPT ![self] = "sus_sigdrop"]
                                    /\ UNCHANGED << stack, ww >>
                    /\ UNCHANGED << qstate, qpoll, jobs, wakeBlocked, schedule, 
                                    pthreads, nspawned, palive, busy, 
                                    busyLocked, inbox, chanOpen, pfin, thrHeld, 
                                    maxThreads, jkind, jaw, gfired, gwaker, 
                                    gthreads, gwhist, dwSt, dwW, dblTaken, 
                                    dblW1, dblW2, nextDW, ready, cwait, cnotif, 
                                    cvHeld, sdres, jpanic, sfst, slotSt, 
                                    qrSent, qrWaker, dnState, susDropped, 
                                    dnWaker, barGen, myBar, cdone, rv, rwb, 
                                    rneed, stres, spName, dsl, atomic, strong, 
                                    ppPending, ppClosed, ppNotify, ppNC, ppBP, 
                                    ppDepth, ppAlive, ppHeld, inItems, 
                                    inClosed, inWaker, pollFn, chuteFn, 
                                    pwTaken, nextPoll, ppItem, pjLive, ppStage, 
                                    h, dead, sti, smax, rq, sq, sj, rsq, bown, 
                                    bwk, bi, bcur, bw, bsp, jq, jj, jwk, fj, 
                                    dq, dj, oq, oop, omode, oj, yq, yop, 
                                    yclaimed, tq, top, af, wf, wop, sf, sctx, 
                                    xf, cop, kj, pp, pwk, np, nbp, nres, dp, 
                                    pf, pctx, pq, pj, pd, nq >>

sus_sigdrop(self) == /\ pc[self] = "sus_sigdrop"
                     /\ jaw' = [jaw EXCEPT ![jj[self]] = 1]
                     /\ IF susDropped[jj[self]]
                           THEN /\ gfired' = (gfired \cup {OpTab[jj[self]].g})
                                /\ fres' = [fres EXCEPT ![jj[self]] = "taken"]
                                /\ pc' = [pc EXCEPT ![self] = "sus_inner"]
                                /\ UNCHANGED << gwaker, rv, stack, jq, jj, jwk >>
                           ELSE /\ IF OpTab[jj[self]].g \notin gfired
                                      THEN /\ gwaker' = [gwaker EXCEPT ![OpTab[jj[self]].g] = jwk[self]]
                                           /\ rv' = [rv EXCEPT ![self] = 5]
                                           /\ pc' = [pc EXCEPT ![self] = Head(stack[self]).pc]
                                           /\ jq' = [jq EXCEPT ![self] = Head(stack[self]).jq]
                                           /\ jj' = [jj EXCEPT ![self] = Head(stack[self]).jj]
                                           /\ jwk' = [jwk EXCEPT ![self] = Head(stack[self]).jwk]
                                           /\ stack' = [stack EXCEPT ![self] = Tail(stack[self])]
                                      ELSE /\ pc' = [pc EXCEPT ![self] = "sus_inner"]
                                           /\ UNCHANGED << gwaker, rv, stack, 
                                                           jq, jj, jwk >>
                                /\ UNCHANGED << fres, gfired >>
                     /\ UNCHANGED << qstate, qpoll, jobs, wakeBlocked, 
                                     schedule, pthreads, nspawned, palive, 
                                     busy, busyLocked, inbox, chanOpen, pfin, 
                                     thrHeld, maxThreads, jkind, fwaker, 
                                     gthreads, gwhist, dwSt, dwW, dblTaken, 
                                     dblW1, dblW2, nextDW, ready, cwait, 
                                     cnotif, cvHeld, sdres, jpanic, sfst, 
                                     slotSt, qrSent, qrWaker, dnState, 
                                     susDropped, dnWaker, parkTok, barGen, 
                                     myBar, cdone, rwb, rneed, stres, spName, 
                                     dsl, atomic, strong, ppPending, ppClosed, 
                                     ppNotify, ppNC, ppBP, ppDepth, ppAlive, 
                                     ppHeld, inItems, inClosed, inWaker, 
                                     pollFn, chuteFn, pwTaken, nextPoll, 
                                     ppItem, pjLive, ppStage, h, dead, sti, 
                                     smax, rq, sq, sj, ww, rsq, bown, bwk, bi, 
                                     bcur, bw, bsp, fj, dq, dj, oq, oop, omode, 
                                     oj, yq, yop, yclaimed, tq, top, af, wf, 
                                     wop, sf, sctx, xf, cop, kj, pp, pwk, np, 
                                     nbp, nres, dp, pf, pctx, pq, pj, pd, nq >>

sus_inner(self) == /\ pc[self] = "sus_inner"
                   /\ TRUE
                   /\ pc' = [pc EXCEPT ![self] = "sus_innerdrop"]
                   /\ UNCHANGED << qstate, qpoll, jobs, wakeBlocked, schedule, 
                                   pthreads, nspawned, palive, busy, 
                                   busyLocked, inbox, chanOpen, pfin, thrHeld, 
                                   maxThreads, jkind, jaw, fres, fwaker, 
                                   gfired, gwaker, gthreads, gwhist, dwSt, dwW, 
                                   dblTaken, dblW1, dblW2, nextDW, ready, 
                                   cwait, cnotif, cvHeld, sdres, jpanic, sfst, 
                                   slotSt, qrSent, qrWaker, dnState, 
                                   susDropped, dnWaker, parkTok, barGen, myBar, 
                                   cdone, rv, rwb, rneed, stres, spName, dsl, 
                                   atomic, strong, ppPending, ppClosed, 
                                   ppNotify, ppNC, ppBP, ppDepth, ppAlive, 
                                   ppHeld, inItems, inClosed, inWaker, pollFn, 
                                   chuteFn, pwTaken, nextPoll, ppItem, pjLive, 
                                   ppStage, h, stack, dead, sti, smax, rq, sq, 
                                   sj, ww, rsq, bown, bwk, bi, bcur, bw, bsp, 
                                   jq, jj, jwk, fj, dq, dj, oq, oop, omode, oj, 
                                   yq, yop, yclaimed, tq, top, af, wf, wop, sf, 
                                   sctx, xf, cop, kj, pp, pwk, np, nbp, nres, 
                                   dp, pf, pctx, pq, pj, pd, nq >>

sus_innerdrop(self) == /\ pc[self] = "sus_innerdrop"
                       /\ rv' = [rv EXCEPT ![self] = 0]
                       /\ pc' = [pc EXCEPT ![self] = Head(stack[self]).pc]
                       /\ jq' = [jq EXCEPT ![self] = Head(stack[self]).jq]
                       /\ jj' = [jj EXCEPT ![self] = Head(stack[self]).jj]
                       /\ jwk' = [jwk EXCEPT ![self] = Head(stack[self]).jwk]
                       /\ stack' = [stack EXCEPT ![self] = Tail(stack[self])]
                       /\ UNCHANGED << qstate, qpoll, jobs, wakeBlocked, 
                                       schedule, pthreads, nspawned, palive, 
                                       busy, busyLocked, inbox, chanOpen, pfin, 
                                       thrHeld, maxThreads, jkind, jaw, fres, 
                                       fwaker, gfired, gwaker, gthreads, 
                                       gwhist, dwSt, dwW, dblTaken, dblW1, 
                                       dblW2, nextDW, ready, cwait, cnotif, 
                                       cvHeld, sdres, jpanic, sfst, slotSt, 
                                       qrSent, qrWaker, dnState, susDropped, 
                                       dnWaker, parkTok, barGen, myBar, cdone, 
                                       rwb, rneed, stres, spName, dsl, atomic, 
                                       strong, ppPending, ppClosed, ppNotify, 
                                       ppNC, ppBP, ppDepth, ppAlive, ppHeld, 
                                       inItems, inClosed, inWaker, pollFn, 
                                       chuteFn, pwTaken, nextPoll, ppItem, 
                                       pjLive, ppStage, h, dead, sti, smax, rq, 
                                       sq, sj, ww, rsq, bown, bwk, bi, bcur, 
                                       bw, bsp, fj, dq, dj, oq, oop, omode, oj, 
                                       yq, yop, yclaimed, tq, top, af, wf, wop, 
                                       sf, sctx, xf, cop, kj, pp, pwk, np, nbp, 
                                       nres, dp, pf, pctx, pq, pj, pd, nq >>

ws_take(self) == /\ pc[self] = "ws_take"
                 /\ IF fres[OpTab[jj[self]].f] = "some"
                       THEN /\ fres' = [fres EXCEPT ![OpTab[jj[self]].f] = "taken"]
                            /\ sdres' = [sdres EXCEPT ![jj[self]] = TRUE]
                            /\ rv' = [rv EXCEPT ![self] = 0]
                            /\ pc' = [pc EXCEPT ![self] = Head(stack[self]).pc]
                            /\ jq' = [jq EXCEPT ![self] = Head(stack[self]).jq]
                            /\ jj' = [jj EXCEPT ![self] = Head(stack[self]).jj]
                            /\ jwk' = [jwk EXCEPT ![self] = Head(stack[self]).jwk]
                            /\ stack' = [stack EXCEPT ![self] = Tail(stack[self])]
                       ELSE /\ sdres' = [sdres EXCEPT ![jj[self]] = TRUE]
                            /\ rv' = [rv EXCEPT ![self] = 0]
                            /\ pc' = [pc EXCEPT ![self] = Head(stack[self]).pc]
                            /\ jq' = [jq EXCEPT ![self] = Head(stack[self]).jq]
                            /\ jj' = [jj EXCEPT ![self] = Head(stack[self]).jj]
                            /\ jwk' = [jwk EXCEPT ![self] = Head(stack[self]).jwk]
                            /\ stack' = [stack EXCEPT ![self] = Tail(stack[self])]
                            /\ fres' = fres
                 /\ UNCHANGED << qstate, qpoll, jobs, wakeBlocked, schedule, 
                                 pthreads, nspawned, palive, busy, busyLocked, 
                                 inbox, chanOpen, pfin, thrHeld, maxThreads, 
                                 jkind, jaw, fwaker, gfired, gwaker, gthreads, 
                                 gwhist, dwSt, dwW, dblTaken, dblW1, dblW2, 
                                 nextDW, ready, cwait, cnotif, cvHeld, jpanic, 
                                 sfst, slotSt, qrSent, qrWaker, dnState, 
                                 susDropped, dnWaker, parkTok, barGen, myBar, 
                                 cdone, rwb, rneed, stres, spName, dsl, atomic, 
                                 strong, ppPending, ppClosed, ppNotify, ppNC, 
                                 ppBP, ppDepth, ppAlive, ppHeld, inItems, 
                                 inClosed, inWaker, pollFn, chuteFn, pwTaken, 
                                 nextPoll, ppItem, pjLive, ppStage, h, dead, 
                                 sti, smax, rq, sq, sj, ww, rsq, bown, bwk, bi, 
                                 bcur, bw, bsp, fj, dq, dj, oq, oop, omode, oj, 
                                 yq, yop, yclaimed, tq, top, af, wf, wop, sf, 
                                 sctx, xf, cop, kj, pp, pwk, np, nbp, nres, dp, 
                                 pf, pctx, pq, pj, pd, nq >>

RunJob(self) == z_rj(self) \/ z_rj_ret(self) \/ z_rj_ok(self)
                   \/ z_pp_gc(self) \/ z_slot2(self) \/ sus_signal(self)
                   \/ sus_sigdrop(self) \/ sus_inner(self)
                   \/ sus_innerdrop(self) \/ ws_take(self)

fj_lock(self) == /\ pc[self] = "fj_lock"
                 /\ IF jkind[fj[self]] \in {"fut", "slot"}
                       THEN /\ LET w == fwaker[fj[self]] IN
                                 /\ fres' = [fres EXCEPT ![fj[self]] = IF jpanic[fj[self]] /\ jkind[fj[self]] = "fut" THEN "cancelled" ELSE "some"]
                                 /\ fwaker' = [fwaker EXCEPT ![fj[self]] = NoW]
                                 /\ IF IsLocking(w)
                                       THEN /\ /\ stack' = [stack EXCEPT ![self] = << [ procedure |->  "Wake",
                                                                                        pc        |->  "z_fj_chk",
                                                                                        ww        |->  ww[self] ] >>
                                                                                    \o stack[self]]
                                               /\ ww' = [ww EXCEPT ![self] = w]
                                            /\ pc' = [pc EXCEPT ![self] = "wk_lock"]
                                            /\ UNCHANGED parkTok
                                       ELSE /\ parkTok' = Unpark(parkTok, TaskOf(w))
                                            /\ pc' = [pc EXCEPT ![self] = "z_fj_chk"]
                                            /\ UNCHANGED << stack, ww >>
                            /\ UNCHANGED << ready, cnotif, fj >>
                       ELSE /\ ready' = [ready EXCEPT ![fj[self]] = TRUE]
                            /\ cnotif' = [cnotif EXCEPT ![fj[self]] = cwait[fj[self]]]
                            /\ pc' = [pc EXCEPT ![self] = Head(stack[self]).pc]
                            /\ fj' = [fj EXCEPT ![self] = Head(stack[self]).fj]
                            /\ stack' = [stack EXCEPT ![self] = Tail(stack[self])]
                            /\ UNCHANGED << fres, fwaker, parkTok, ww >>
                 /\ UNCHANGED << qstate, qpoll, jobs, wakeBlocked, schedule, 
                                 pthreads, nspawned, palive, busy, busyLocked, 
                                 inbox, chanOpen, pfin, thrHeld, maxThreads, 
                                 jkind, jaw, gfired, gwaker, gthreads, gwhist, 
                                 dwSt, dwW, dblTaken, dblW1, dblW2, nextDW, 
                                 cwait, cvHeld, sdres, jpanic, sfst, slotSt, 
                                 qrSent, qrWaker, dnState, susDropped, dnWaker, 
                                 barGen, myBar, cdone, rv, rwb, rneed, stres, 
                                 spName, dsl, atomic, strong, ppPending, 
                                 ppClosed, ppNotify, ppNC, ppBP, ppDepth, 
                                 ppAlive, ppHeld, inItems, inClosed, inWaker, 
                                 pollFn, chuteFn, pwTaken, nextPoll, ppItem, 
                                 pjLive, ppStage, h, dead, sti, smax, rq, sq, 
                                 sj, rsq, bown, bwk, bi, bcur, bw, bsp, jq, jj, 
                                 jwk, dq, dj, oq, oop, omode, oj, yq, yop, 
                                 yclaimed, tq, top, af, wf, wop, sf, sctx, xf, 
                                 cop, kj, pp, pwk, np, nbp, nres, dp, pf, pctx, 
                                 pq, pj, pd, nq >>

z_fj_chk(self) == /\ pc[self] = "z_fj_chk"
                  /\ IF jpanic[fj[self]] /\ jkind[fj[self]] = "fut"
                        THEN /\ pc' = [pc EXCEPT ![self] = Head(stack[self]).pc]
                             /\ fj' = [fj EXCEPT ![self] = Head(stack[self]).fj]
                             /\ stack' = [stack EXCEPT ![self] = Tail(stack[self])]
                        ELSE /\ pc' = [pc EXCEPT ![self] = "fj_sigdrop"]
                             /\ UNCHANGED << stack, fj >>
                  /\ UNCHANGED << qstate, qpoll, jobs, wakeBlocked, schedule, 
                                  pthreads, nspawned, palive, busy, busyLocked, 
                                  inbox, chanOpen, pfin, thrHeld, maxThreads, 
                                  jkind, jaw, fres, fwaker, gfired, gwaker, 
                                  gthreads, gwhist, dwSt, dwW, dblTaken, dblW1, 
                                  dblW2, nextDW, ready, cwait, cnotif, cvHeld, 
                                  sdres, jpanic, sfst, slotSt, qrSent, qrWaker, 
                                  dnState, susDropped, dnWaker, parkTok, 
                                  barGen, myBar, cdone, rv, rwb, rneed, stres, 
                                  spName, dsl, atomic, strong, ppPending, 
                                  ppClosed, ppNotify, ppNC, ppBP, ppDepth, 
                                  ppAlive, ppHeld, inItems, inClosed, inWaker, 
                                  pollFn, chuteFn, pwTaken, nextPoll, ppItem, 
                                  pjLive, ppStage, h, dead, sti, smax, rq, sq, 
                                  sj, ww, rsq, bown, bwk, bi, bcur, bw, bsp, 
                                  jq, jj, jwk, dq, dj, oq, oop, omode, oj, yq, 
                                  yop, yclaimed, tq, top, af, wf, wop, sf, 
                                  sctx, xf, cop, kj, pp, pwk, np, nbp, nres, 
                                  dp, pf, pctx, pq, pj, pd, nq >>

fj_sigdrop(self) == /\ pc[self] = "fj_sigdrop"
                    /\ pc' = [pc EXCEPT ![self] = Head(stack[self]).pc]
                    /\ fj' = [fj EXCEPT ![self] = Head(stack[self]).fj]
                    /\ stack' = [stack EXCEPT ![self] = Tail(stack[self])]
                    /\ UNCHANGED << qstate, qpoll, jobs, wakeBlocked, schedule, 
                                    pthreads, nspawned, palive, busy, 
                                    busyLocked, inbox, chanOpen, pfin, thrHeld, 
                                    maxThreads, jkind, jaw, fres, fwaker, 
                                    gfired, gwaker, gthreads, gwhist, dwSt, 
                                    dwW, dblTaken, dblW1, dblW2, nextDW, ready, 
                                    cwait, cnotif, cvHeld, sdres, jpanic, sfst, 
                                    slotSt, qrSent, qrWaker, dnState, 
                                    susDropped, dnWaker, parkTok, barGen, 
                                    myBar, cdone, rv, rwb, rneed, stres, 
                                    spName, dsl, atomic, strong, ppPending, 
                                    ppClosed, ppNotify, ppNC, ppBP, ppDepth, 
                                    ppAlive, ppHeld, inItems, inClosed, 
                                    inWaker, pollFn, chuteFn, pwTaken, 
                                    nextPoll, ppItem, pjLive, ppStage, h, dead, 
                                    sti, smax, rq, sq, sj, ww, rsq, bown, bwk, 
                                    bi, bcur, bw, bsp, jq, jj, jwk, dq, dj, oq, 
                                    oop, omode, oj, yq, yop, yclaimed, tq, top, 
                                    af, wf, wop, sf, sctx, xf, cop, kj, pp, 
                                    pwk, np, nbp, nres, dp, pf, pctx, pq, pj, 
                                    pd, nq >>

FinishJob(self) == fj_lock(self) \/ z_fj_chk(self) \/ fj_sigdrop(self)

pd_deq(self) == /\ pc[self] = "pd_deq"
                /\ IF qstate[dq[self]] \in Waiting \/ jobs[dq[self]] = << >>
                      THEN /\ pc' = [pc EXCEPT ![self] = "pd_end"]
                           /\ UNCHANGED << jobs, stack, jq, jj, jwk, dj >>
                      ELSE /\ dj' = [dj EXCEPT ![self] = Head(jobs[dq[self]])]
                           /\ jobs' = [jobs EXCEPT ![dq[self]] = Tail(jobs[dq[self]])]
                           /\ /\ jj' = [jj EXCEPT ![self] = dj'[self]]
                              /\ jq' = [jq EXCEPT ![self] = dq[self]]
                              /\ jwk' = [jwk EXCEPT ![self] = WQ(dq[self])]
                              /\ stack' = [stack EXCEPT ![self] = << [ procedure |->  "RunJob",
                                                                       pc        |->  "z_pd_after",
                                                                       jq        |->  jq[self],
                                                                       jj        |->  jj[self],
                                                                       jwk       |->  jwk[self] ] >>
                                                                   \o stack[self]]
                           /\ pc' = [pc EXCEPT ![self] = "z_rj"]
                /\ UNCHANGED << qstate, qpoll, wakeBlocked, schedule, pthreads, 
                                nspawned, palive, busy, busyLocked, inbox, 
                                chanOpen, pfin, thrHeld, maxThreads, jkind, 
                                jaw, fres, fwaker, gfired, gwaker, gthreads, 
                                gwhist, dwSt, dwW, dblTaken, dblW1, dblW2, 
                                nextDW, ready, cwait, cnotif, cvHeld, sdres, 
                                jpanic, sfst, slotSt, qrSent, qrWaker, dnState, 
                                susDropped, dnWaker, parkTok, barGen, myBar, 
                                cdone, rv, rwb, rneed, stres, spName, dsl, 
                                atomic, strong, ppPending, ppClosed, ppNotify, 
                                ppNC, ppBP, ppDepth, ppAlive, ppHeld, inItems, 
                                inClosed, inWaker, pollFn, chuteFn, pwTaken, 
                                nextPoll, ppItem, pjLive, ppStage, h, dead, 
                                sti, smax, rq, sq, sj, ww, rsq, bown, bwk, bi, 
                                bcur, bw, bsp, fj, dq, oq, oop, omode, oj, yq, 
                                yop, yclaimed, tq, top, af, wf, wop, sf, sctx, 
                                xf, cop, kj, pp, pwk, np, nbp, nres, dp, pf, 
                                pctx, pq, pj, pd, nq >>

z_pd_after(self) == /\ pc[self] = "z_pd_after"
                    /\ IF rv[self] = 5
                          THEN /\ pc' = [pc EXCEPT ![self] = "pd_requeue"]
                               /\ UNCHANGED << stack, fj >>
                          ELSE /\ IF rv[self] = 9
                                     THEN /\ IF NeedsFinish(dj[self])
                                                THEN /\ /\ fj' = [fj EXCEPT ![self] = dj[self]]
                                                        /\ stack' = [stack EXCEPT ![self] = << [ procedure |->  "FinishJob",
                                                                                                 pc        |->  "pd_panic",
                                                                                                 fj        |->  fj[self] ] >>
                                                                                             \o stack[self]]
                                                     /\ pc' = [pc EXCEPT ![self] = "fj_lock"]
                                                ELSE /\ pc' = [pc EXCEPT ![self] = "pd_panic"]
                                                     /\ UNCHANGED << stack, fj >>
                                     ELSE /\ IF NeedsFinish(dj[self])
                                                THEN /\ /\ fj' = [fj EXCEPT ![self] = dj[self]]
                                                        /\ stack' = [stack EXCEPT ![self] = << [ procedure |->  "FinishJob",
                                                                                                 pc        |->  "pd_deq",
                                                                                                 fj        |->  fj[self] ] >>
                                                                                             \o stack[self]]
                                                     /\ pc' = [pc EXCEPT ![self] = "fj_lock"]
                                                ELSE /\ pc' = [pc EXCEPT ![self] = "pd_deq"]
                                                     /\ UNCHANGED << stack, fj >>
                    /\ UNCHANGED << qstate, qpoll, jobs, wakeBlocked, schedule, 
                                    pthreads, nspawned, palive, busy, 
                                    busyLocked, inbox, chanOpen, pfin, thrHeld, 
                                    maxThreads, jkind, jaw, fres, fwaker, 
                                    gfired, gwaker, gthreads, gwhist, dwSt, 
                                    dwW, dblTaken, dblW1, dblW2, nextDW, ready, 
                                    cwait, cnotif, cvHeld, sdres, jpanic, sfst, 
                                    slotSt, qrSent, qrWaker, dnState, 
                                    susDropped, dnWaker, parkTok, barGen, 
                                    myBar, cdone, rv, rwb, rneed, stres, 
                                    spName, dsl, atomic, strong, ppPending, 
                                    ppClosed, ppNotify, ppNC, ppBP, ppDepth, 
                                    ppAlive, ppHeld, inItems, inClosed, 
                                    inWaker, pollFn, chuteFn, pwTaken, 
                                    nextPoll, ppItem, pjLive, ppStage, h, dead, 
                                    sti, smax, rq, sq, sj, ww, rsq, bown, bwk, 
                                    bi, bcur, bw, bsp, jq, jj, jwk, dq, dj, oq, 
                                    oop, omode, oj, yq, yop, yclaimed, tq, top, 
                                    af, wf, wop, sf, sctx, xf, cop, kj, pp, 
                                    pwk, np, nbp, nres, dp, pf, pctx, pq, pj, 
                                    pd, nq >>

pd_requeue(self) == /\ pc[self] = "pd_requeue"
                    /\ jobs' = [jobs EXCEPT ![dq[self]] = << dj[self] >> \o jobs[dq[self]]]
                    /\ pc' = [pc EXCEPT ![self] = "pd_park"]
                    /\ UNCHANGED << qstate, qpoll, wakeBlocked, schedule, 
                                    pthreads, nspawned, palive, busy, 
                                    busyLocked, inbox, chanOpen, pfin, thrHeld, 
                                    maxThreads, jkind, jaw, fres, fwaker, 
                                    gfired, gwaker, gthreads, gwhist, dwSt, 
                                    dwW, dblTaken, dblW1, dblW2, nextDW, ready, 
                                    cwait, cnotif, cvHeld, sdres, jpanic, sfst, 
                                    slotSt, qrSent, qrWaker, dnState, 
                                    susDropped, dnWaker, parkTok, barGen, 
                                    myBar, cdone, rv, rwb, rneed, stres, 
                                    spName, dsl, atomic, strong, ppPending, 
                                    ppClosed, ppNotify, ppNC, ppBP, ppDepth, 
                                    ppAlive, ppHeld, inItems, inClosed, 
                                    inWaker, pollFn, chuteFn, pwTaken, 
                                    nextPoll, ppItem, pjLive, ppStage, h, 
                                    stack, dead, sti, smax, rq, sq, sj, ww, 
                                    rsq, bown, bwk, bi, bcur, bw, bsp, jq, jj, 
                                    jwk, fj, dq, dj, oq, oop, omode, oj, yq, 
                                    yop, yclaimed, tq, top, af, wf, wop, sf, 
                                    sctx, xf, cop, kj, pp, pwk, np, nbp, nres, 
                                    dp, pf, pctx, pq, pj, pd, nq >>

pd_park(self) == /\ pc[self] = "pd_park"
                 /\ IF qstate[dq[self]] = "Running"
                       THEN /\ qstate' = [qstate EXCEPT ![dq[self]] = "WaitingForWake"]
                            /\ rv' = [rv EXCEPT ![self] = 0]
                            /\ pc' = [pc EXCEPT ![self] = Head(stack[self]).pc]
                            /\ dj' = [dj EXCEPT ![self] = Head(stack[self]).dj]
                            /\ dq' = [dq EXCEPT ![self] = Head(stack[self]).dq]
                            /\ stack' = [stack EXCEPT ![self] = Tail(stack[self])]
                       ELSE /\ IF qstate[dq[self]] = "AwokenWhileRunning"
                                  THEN /\ qstate' = [qstate EXCEPT ![dq[self]] = "Running"]
                                       /\ pc' = [pc EXCEPT ![self] = "pd_deq"]
                                  ELSE /\ pc' = [pc EXCEPT ![self] = "pd_deq"]
                                       /\ UNCHANGED qstate
                            /\ UNCHANGED << rv, stack, dq, dj >>
                 /\ UNCHANGED << qpoll, jobs, wakeBlocked, schedule, pthreads, 
                                 nspawned, palive, busy, busyLocked, inbox, 
                                 chanOpen, pfin, thrHeld, maxThreads, jkind, 
                                 jaw, fres, fwaker, gfired, gwaker, gthreads, 
                                 gwhist, dwSt, dwW, dblTaken, dblW1, dblW2, 
                                 nextDW, ready, cwait, cnotif, cvHeld, sdres, 
                                 jpanic, sfst, slotSt, qrSent, qrWaker, 
                                 dnState, susDropped, dnWaker, parkTok, barGen, 
                                 myBar, cdone, rwb, rneed, stres, spName, dsl, 
                                 atomic, strong, ppPending, ppClosed, ppNotify, 
                                 ppNC, ppBP, ppDepth, ppAlive, ppHeld, inItems, 
                                 inClosed, inWaker, pollFn, chuteFn, pwTaken, 
                                 nextPoll, ppItem, pjLive, ppStage, h, dead, 
                                 sti, smax, rq, sq, sj, ww, rsq, bown, bwk, bi, 
                                 bcur, bw, bsp, jq, jj, jwk, fj, oq, oop, 
                                 omode, oj, yq, yop, yclaimed, tq, top, af, wf, 
                                 wop, sf, sctx, xf, cop, kj, pp, pwk, np, nbp, 
                                 nres, dp, pf, pctx, pq, pj, pd, nq >>

pd_end(self) == /\ pc[self] = "pd_end"
                /\ IF jobs[dq[self]] = << >>
                      THEN /\ IF qstate[dq[self]] \in RunningStates
                                 THEN /\ qstate' = [qstate EXCEPT ![dq[self]] = "Idle"]
                                 ELSE /\ TRUE
                                      /\ UNCHANGED qstate
                           /\ rv' = [rv EXCEPT ![self] = 0]
                           /\ pc' = [pc EXCEPT ![self] = Head(stack[self]).pc]
                           /\ dj' = [dj EXCEPT ![self] = Head(stack[self]).dj]
                           /\ dq' = [dq EXCEPT ![self] = Head(stack[self]).dq]
                           /\ stack' = [stack EXCEPT ![self] = Tail(stack[self])]
                      ELSE /\ IF qstate[dq[self]] = "Pending"
                                 THEN /\ rv' = [rv EXCEPT ![self] = 0]
                                      /\ pc' = [pc EXCEPT ![self] = Head(stack[self]).pc]
                                      /\ dj' = [dj EXCEPT ![self] = Head(stack[self]).dj]
                                      /\ dq' = [dq EXCEPT ![self] = Head(stack[self]).dq]
                                      /\ stack' = [stack EXCEPT ![self] = Tail(stack[self])]
                                 ELSE /\ pc' = [pc EXCEPT ![self] = "pd_deq"]
                                      /\ UNCHANGED << rv, stack, dq, dj >>
                           /\ UNCHANGED qstate
                /\ UNCHANGED << qpoll, jobs, wakeBlocked, schedule, pthreads, 
                                nspawned, palive, busy, busyLocked, inbox, 
                                chanOpen, pfin, thrHeld, maxThreads, jkind, 
                                jaw, fres, fwaker, gfired, gwaker, gthreads, 
                                gwhist, dwSt, dwW, dblTaken, dblW1, dblW2, 
                                nextDW, ready, cwait, cnotif, cvHeld, sdres, 
                                jpanic, sfst, slotSt, qrSent, qrWaker, dnState, 
                                susDropped, dnWaker, parkTok, barGen, myBar, 
                                cdone, rwb, rneed, stres, spName, dsl, atomic, 
                                strong, ppPending, ppClosed, ppNotify, ppNC, 
                                ppBP, ppDepth, ppAlive, ppHeld, inItems, 
                                inClosed, inWaker, pollFn, chuteFn, pwTaken, 
                                nextPoll, ppItem, pjLive, ppStage, h, dead, 
                                sti, smax, rq, sq, sj, ww, rsq, bown, bwk, bi, 
                                bcur, bw, bsp, jq, jj, jwk, fj, oq, oop, omode, 
                                oj, yq, yop, yclaimed, tq, top, af, wf, wop, 
                                sf, sctx, xf, cop, kj, pp, pwk, np, nbp, nres, 
                                dp, pf, pctx, pq, pj, pd, nq >>

pd_panic(self) == /\ pc[self] = "pd_panic"
                  /\ qstate' = [qstate EXCEPT ![dq[self]] = "Panicked"]
                  /\ rv' = [rv EXCEPT ![self] = 9]
                  /\ pc' = [pc EXCEPT ![self] = Head(stack[self]).pc]
                  /\ dj' = [dj EXCEPT ![self] = Head(stack[self]).dj]
                  /\ dq' = [dq EXCEPT ![self] = Head(stack[self]).dq]
                  /\ stack' = [stack EXCEPT ![self] = Tail(stack[self])]
                  /\ UNCHANGED << qpoll, jobs, wakeBlocked, schedule, pthreads, 
                                  nspawned, palive, busy, busyLocked, inbox, 
                                  chanOpen, pfin, thrHeld, maxThreads, jkind, 
                                  jaw, fres, fwaker, gfired, gwaker, gthreads, 
                                  gwhist, dwSt, dwW, dblTaken, dblW1, dblW2, 
                                  nextDW, ready, cwait, cnotif, cvHeld, sdres, 
                                  jpanic, sfst, slotSt, qrSent, qrWaker, 
                                  dnState, susDropped, dnWaker, parkTok, 
                                  barGen, myBar, cdone, rwb, rneed, stres, 
                                  spName, dsl, atomic, strong, ppPending, 
                                  ppClosed, ppNotify, ppNC, ppBP, ppDepth, 
                                  ppAlive, ppHeld, inItems, inClosed, inWaker, 
                                  pollFn, chuteFn, pwTaken, nextPoll, ppItem, 
                                  pjLive, ppStage, h, dead, sti, smax, rq, sq, 
                                  sj, ww, rsq, bown, bwk, bi, bcur, bw, bsp, 
                                  jq, jj, jwk, fj, oq, oop, omode, oj, yq, yop, 
                                  yclaimed, tq, top, af, wf, wop, sf, sctx, xf, 
                                  cop, kj, pp, pwk, np, nbp, nres, dp, pf, 
                                  pctx, pq, pj, pd, nq >>

PoolDrain(self) == pd_deq(self) \/ z_pd_after(self) \/ pd_requeue(self)
                      \/ pd_park(self) \/ pd_end(self) \/ pd_panic(self)

ro_deq(self) == /\ pc[self] = "ro_deq"
                /\ IF qstate[oq[self]] \in Waiting \/ jobs[oq[self]] = << >>
                      THEN /\ IF omode[self] = "sd"
                                 THEN /\ pc' = [pc EXCEPT ![self] = "ro_deq"]
                                      /\ UNCHANGED << rv, stack, oq, oop, 
                                                      omode, oj >>
                                 ELSE /\ rv' = [rv EXCEPT ![self] = 0]
                                      /\ pc' = [pc EXCEPT ![self] = Head(stack[self]).pc]
                                      /\ oj' = [oj EXCEPT ![self] = Head(stack[self]).oj]
                                      /\ oq' = [oq EXCEPT ![self] = Head(stack[self]).oq]
                                      /\ oop' = [oop EXCEPT ![self] = Head(stack[self]).oop]
                                      /\ omode' = [omode EXCEPT ![self] = Head(stack[self]).omode]
                                      /\ stack' = [stack EXCEPT ![self] = Tail(stack[self])]
                           /\ UNCHANGED << jobs, jq, jj, jwk >>
                      ELSE /\ oj' = [oj EXCEPT ![self] = Head(jobs[oq[self]])]
                           /\ jobs' = [jobs EXCEPT ![oq[self]] = Tail(jobs[oq[self]])]
                           /\ /\ jj' = [jj EXCEPT ![self] = oj'[self]]
                              /\ jq' = [jq EXCEPT ![self] = oq[self]]
                              /\ jwk' = [jwk EXCEPT ![self] = WT(oq[self], self)]
                              /\ stack' = [stack EXCEPT ![self] = << [ procedure |->  "RunJob",
                                                                       pc        |->  "z_ro_after",
                                                                       jq        |->  jq[self],
                                                                       jj        |->  jj[self],
                                                                       jwk       |->  jwk[self] ] >>
                                                                   \o stack[self]]
                           /\ pc' = [pc EXCEPT ![self] = "z_rj"]
                           /\ UNCHANGED << rv, oq, oop, omode >>
                /\ UNCHANGED << qstate, qpoll, wakeBlocked, schedule, pthreads, 
                                nspawned, palive, busy, busyLocked, inbox, 
                                chanOpen, pfin, thrHeld, maxThreads, jkind, 
                                jaw, fres, fwaker, gfired, gwaker, gthreads, 
                                gwhist, dwSt, dwW, dblTaken, dblW1, dblW2, 
                                nextDW, ready, cwait, cnotif, cvHeld, sdres, 
                                jpanic, sfst, slotSt, qrSent, qrWaker, dnState, 
                                susDropped, dnWaker, parkTok, barGen, myBar, 
                                cdone, rwb, rneed, stres, spName, dsl, atomic, 
                                strong, ppPending, ppClosed, ppNotify, ppNC, 
                                ppBP, ppDepth, ppAlive, ppHeld, inItems, 
                                inClosed, inWaker, pollFn, chuteFn, pwTaken, 
                                nextPoll, ppItem, pjLive, ppStage, h, dead, 
                                sti, smax, rq, sq, sj, ww, rsq, bown, bwk, bi, 
                                bcur, bw, bsp, fj, dq, dj, yq, yop, yclaimed, 
                                tq, top, af, wf, wop, sf, sctx, xf, cop, kj, 
                                pp, pwk, np, nbp, nres, dp, pf, pctx, pq, pj, 
                                pd, nq >>

z_ro_after(self) == /\ pc[self] = "z_ro_after"
                    /\ IF rv[self] = 5
                          THEN /\ pc' = [pc EXCEPT ![self] = "ro_park"]
                               /\ UNCHANGED << stack, fj >>
                          ELSE /\ IF rv[self] = 9
                                     THEN /\ IF NeedsFinish(oj[self])
                                                THEN /\ /\ fj' = [fj EXCEPT ![self] = oj[self]]
                                                        /\ stack' = [stack EXCEPT ![self] = << [ procedure |->  "FinishJob",
                                                                                                 pc        |->  "z_ro_panic",
                                                                                                 fj        |->  fj[self] ] >>
                                                                                             \o stack[self]]
                                                     /\ pc' = [pc EXCEPT ![self] = "fj_lock"]
                                                ELSE /\ pc' = [pc EXCEPT ![self] = "z_ro_panic"]
                                                     /\ UNCHANGED << stack, fj >>
                                     ELSE /\ IF NeedsFinish(oj[self])
                                                THEN /\ /\ fj' = [fj EXCEPT ![self] = oj[self]]
                                                        /\ stack' = [stack EXCEPT ![self] = << [ procedure |->  "FinishJob",
                                                                                                 pc        |->  "z_ro_done",
                                                                                                 fj        |->  fj[self] ] >>
                                                                                             \o stack[self]]
                                                     /\ pc' = [pc EXCEPT ![self] = "fj_lock"]
                                                ELSE /\ pc' = [pc EXCEPT ![self] = "z_ro_done"]
                                                     /\ UNCHANGED << stack, fj >>
                    /\ UNCHANGED << qstate, qpoll, jobs, wakeBlocked, schedule, 
                                    pthreads, nspawned, palive, busy, 
                                    busyLocked, inbox, chanOpen, pfin, thrHeld, 
                                    maxThreads, jkind, jaw, fres, fwaker, 
                                    gfired, gwaker, gthreads, gwhist, dwSt, 
                                    dwW, dblTaken, dblW1, dblW2, nextDW, ready, 
                                    cwait, cnotif, cvHeld, sdres, jpanic, sfst, 
                                    slotSt, qrSent, qrWaker, dnState, 
                                    susDropped, dnWaker, parkTok, barGen, 
                                    myBar, cdone, rv, rwb, rneed, stres, 
                                    spName, dsl, atomic, strong, ppPending, 
                                    ppClosed, ppNotify, ppNC, ppBP, ppDepth, 
                                    ppAlive, ppHeld, inItems, inClosed, 
                                    inWaker, pollFn, chuteFn, pwTaken, 
                                    nextPoll, ppItem, pjLive, ppStage, h, dead, 
                                    sti, smax, rq, sq, sj, ww, rsq, bown, bwk, 
                                    bi, bcur, bw, bsp, jq, jj, jwk, dq, dj, oq, 
                                    oop, omode, oj, yq, yop, yclaimed, tq, top, 
                                    af, wf, wop, sf, sctx, xf, cop, kj, pp, 
                                    pwk, np, nbp, nres, dp, pf, pctx, pq, pj, 
                                    pd, nq >>

z_ro_done(self) == /\ pc[self] = "z_ro_done"
                   /\ IF omode[self] = "sd" /\ ~sdres[oop[self]]
                         THEN /\ pc' = [pc EXCEPT ![self] = "ro_deq"]
                              /\ UNCHANGED << rv, stack, oq, oop, omode, oj >>
                         ELSE /\ rv' = [rv EXCEPT ![self] = 0]
                              /\ pc' = [pc EXCEPT ![self] = Head(stack[self]).pc]
                              /\ oj' = [oj EXCEPT ![self] = Head(stack[self]).oj]
                              /\ oq' = [oq EXCEPT ![self] = Head(stack[self]).oq]
                              /\ oop' = [oop EXCEPT ![self] = Head(stack[self]).oop]
                              /\ omode' = [omode EXCEPT ![self] = Head(stack[self]).omode]
                              /\ stack' = [stack EXCEPT ![self] = Tail(stack[self])]
                   /\ UNCHANGED << qstate, qpoll, jobs, wakeBlocked, schedule, 
                                   pthreads, nspawned, palive, busy, 
                                   busyLocked, inbox, chanOpen, pfin, thrHeld, 
                                   maxThreads, jkind, jaw, fres, fwaker, 
                                   gfired, gwaker, gthreads, gwhist, dwSt, dwW, 
                                   dblTaken, dblW1, dblW2, nextDW, ready, 
                                   cwait, cnotif, cvHeld, sdres, jpanic, sfst, 
                                   slotSt, qrSent, qrWaker, dnState, 
                                   susDropped, dnWaker, parkTok, barGen, myBar, 
                                   cdone, rwb, rneed, stres, spName, dsl, 
                                   atomic, strong, ppPending, ppClosed, 
                                   ppNotify, ppNC, ppBP, ppDepth, ppAlive, 
                                   ppHeld, inItems, inClosed, inWaker, pollFn, 
                                   chuteFn, pwTaken, nextPoll, ppItem, pjLive, 
                                   ppStage, h, dead, sti, smax, rq, sq, sj, ww, 
                                   rsq, bown, bwk, bi, bcur, bw, bsp, jq, jj, 
                                   jwk, fj, dq, dj, yq, yop, yclaimed, tq, top, 
                                   af, wf, wop, sf, sctx, xf, cop, kj, pp, pwk, 
                                   np, nbp, nres, dp, pf, pctx, pq, pj, pd, nq >>

z_ro_panic(self) == /\ pc[self] = "z_ro_panic"
                    /\ rv' = [rv EXCEPT ![self] = 9]
                    /\ pc' = [pc EXCEPT ![self] = Head(stack[self]).pc]
                    /\ oj' = [oj EXCEPT ![self] = Head(stack[self]).oj]
                    /\ oq' = [oq EXCEPT ![self] = Head(stack[self]).oq]
                    /\ oop' = [oop EXCEPT ![self] = Head(stack[self]).oop]
                    /\ omode' = [omode EXCEPT ![self] = Head(stack[self]).omode]
                    /\ stack' = [stack EXCEPT ![self] = Tail(stack[self])]
                    /\ UNCHANGED << qstate, qpoll, jobs, wakeBlocked, schedule, 
                                    pthreads, nspawned, palive, busy, 
                                    busyLocked, inbox, chanOpen, pfin, thrHeld, 
                                    maxThreads, jkind, jaw, fres, fwaker, 
                                    gfired, gwaker, gthreads, gwhist, dwSt, 
                                    dwW, dblTaken, dblW1, dblW2, nextDW, ready, 
                                    cwait, cnotif, cvHeld, sdres, jpanic, sfst, 
                                    slotSt, qrSent, qrWaker, dnState, 
                                    susDropped, dnWaker, parkTok, barGen, 
                                    myBar, cdone, rwb, rneed, stres, spName, 
                                    dsl, atomic, strong, ppPending, ppClosed, 
                                    ppNotify, ppNC, ppBP, ppDepth, ppAlive, 
                                    ppHeld, inItems, inClosed, inWaker, pollFn, 
                                    chuteFn, pwTaken, nextPoll, ppItem, pjLive, 
                                    ppStage, h, dead, sti, smax, rq, sq, sj, 
                                    ww, rsq, bown, bwk, bi, bcur, bw, bsp, jq, 
                                    jj, jwk, fj, dq, dj, yq, yop, yclaimed, tq, 
                                    top, af, wf, wop, sf, sctx, xf, cop, kj, 
                                    pp, pwk, np, nbp, nres, dp, pf, pctx, pq, 
                                    pj, pd, nq >>

ro_park(self) == /\ pc[self] = "ro_park"
                 /\ IF qstate[oq[self]] = "AwokenWhileRunning"
                       THEN /\ qstate' = [qstate EXCEPT ![oq[self]] = "Running"]
                            /\ /\ jj' = [jj EXCEPT ![self] = oj[self]]
                               /\ jq' = [jq EXCEPT ![self] = oq[self]]
                               /\ jwk' = [jwk EXCEPT ![self] = WT(oq[self], self)]
                               /\ stack' = [stack EXCEPT ![self] = << [ procedure |->  "RunJob",
                                                                        pc        |->  "z_ro_after",
                                                                        jq        |->  jq[self],
                                                                        jj        |->  jj[self],
                                                                        jwk       |->  jwk[self] ] >>
                                                                    \o stack[self]]
                            /\ pc' = [pc EXCEPT ![self] = "z_rj"]
                       ELSE /\ Assert(qstate[oq[self]] = "Running", 
                                      "Failure of assertion at line 633, column 5.")
                            /\ qstate' = [qstate EXCEPT ![oq[self]] = "WaitingForUnpark"]
                            /\ pc' = [pc EXCEPT ![self] = "ro_check"]
                            /\ UNCHANGED << stack, jq, jj, jwk >>
                 /\ UNCHANGED << qpoll, jobs, wakeBlocked, schedule, pthreads, 
                                 nspawned, palive, busy, busyLocked, inbox, 
                                 chanOpen, pfin, thrHeld, maxThreads, jkind, 
                                 jaw, fres, fwaker, gfired, gwaker, gthreads, 
                                 gwhist, dwSt, dwW, dblTaken, dblW1, dblW2, 
                                 nextDW, ready, cwait, cnotif, cvHeld, sdres, 
                                 jpanic, sfst, slotSt, qrSent, qrWaker, 
                                 dnState, susDropped, dnWaker, parkTok, barGen, 
                                 myBar, cdone, rv, rwb, rneed, stres, spName, 
                                 dsl, atomic, strong, ppPending, ppClosed, 
                                 ppNotify, ppNC, ppBP, ppDepth, ppAlive, 
                                 ppHeld, inItems, inClosed, inWaker, pollFn, 
                                 chuteFn, pwTaken, nextPoll, ppItem, pjLive, 
                                 ppStage, h, dead, sti, smax, rq, sq, sj, ww, 
                                 rsq, bown, bwk, bi, bcur, bw, bsp, fj, dq, dj, 
                                 oq, oop, omode, oj, yq, yop, yclaimed, tq, 
                                 top, af, wf, wop, sf, sctx, xf, cop, kj, pp, 
                                 pwk, np, nbp, nres, dp, pf, pctx, pq, pj, pd, 
                                 nq >>

ro_check(self) == /\ pc[self] = "ro_check"
                  /\ IF qstate[oq[self]] \in {"Running", "AwokenWhileRunning"}
                        THEN /\ /\ jj' = [jj EXCEPT ![self] = oj[self]]
                                /\ jq' = [jq EXCEPT ![self] = oq[self]]
                                /\ jwk' = [jwk EXCEPT ![self] = WT(oq[self], self)]
                                /\ stack' = [stack EXCEPT ![self] = << [ procedure |->  "RunJob",
                                                                         pc        |->  "z_ro_after",
                                                                         jq        |->  jq[self],
                                                                         jj        |->  jj[self],
                                                                         jwk       |->  jwk[self] ] >>
                                                                     \o stack[self]]
                             /\ pc' = [pc EXCEPT ![self] = "z_rj"]
                        ELSE /\ Assert(qstate[oq[self]] = "WaitingForUnpark", 
                                       "Failure of assertion at line 640, column 12.")
                             /\ pc' = [pc EXCEPT ![self] = "ro_parked"]
                             /\ UNCHANGED << stack, jq, jj, jwk >>
                  /\ UNCHANGED << qstate, qpoll, jobs, wakeBlocked, schedule, 
                                  pthreads, nspawned, palive, busy, busyLocked, 
                                  inbox, chanOpen, pfin, thrHeld, maxThreads, 
                                  jkind, jaw, fres, fwaker, gfired, gwaker, 
                                  gthreads, gwhist, dwSt, dwW, dblTaken, dblW1, 
                                  dblW2, nextDW, ready, cwait, cnotif, cvHeld, 
                                  sdres, jpanic, sfst, slotSt, qrSent, qrWaker, 
                                  dnState, susDropped, dnWaker, parkTok, 
                                  barGen, myBar, cdone, rv, rwb, rneed, stres, 
                                  spName, dsl, atomic, strong, ppPending, 
                                  ppClosed, ppNotify, ppNC, ppBP, ppDepth, 
                                  ppAlive, ppHeld, inItems, inClosed, inWaker, 
                                  pollFn, chuteFn, pwTaken, nextPoll, ppItem, 
                                  pjLive, ppStage, h, dead, sti, smax, rq, sq, 
                                  sj, ww, rsq, bown, bwk, bi, bcur, bw, bsp, 
                                  fj, dq, dj, oq, oop, omode, oj, yq, yop, 
                                  yclaimed, tq, top, af, wf, wop, sf, sctx, xf, 
                                  cop, kj, pp, pwk, np, nbp, nres, dp, pf, 
                                  pctx, pq, pj, pd, nq >>

ro_parked(self) == /\ pc[self] = "ro_parked"
                   /\ parkTok[self]
                   /\ parkTok' = [parkTok EXCEPT ![self] = FALSE]
                   /\ h' = ObsBlocked(h, self)
                   /\ pc' = [pc EXCEPT ![self] = "ro_check"]
                   /\ UNCHANGED << qstate, qpoll, jobs, wakeBlocked, schedule, 
                                   pthreads, nspawned, palive, busy, 
                                   busyLocked, inbox, chanOpen, pfin, thrHeld, 
                                   maxThreads, jkind, jaw, fres, fwaker, 
                                   gfired, gwaker, gthreads, gwhist, dwSt, dwW, 
                                   dblTaken, dblW1, dblW2, nextDW, ready, 
                                   cwait, cnotif, cvHeld, sdres, jpanic, sfst, 
                                   slotSt, qrSent, qrWaker, dnState, 
                                   susDropped, dnWaker, barGen, myBar, cdone, 
                                   rv, rwb, rneed, stres, spName, dsl, atomic, 
                                   strong, ppPending, ppClosed, ppNotify, ppNC, 
                                   ppBP, ppDepth, ppAlive, ppHeld, inItems, 
                                   inClosed, inWaker, pollFn, chuteFn, pwTaken, 
                                   nextPoll, ppItem, pjLive, ppStage, stack, 
                                   dead, sti, smax, rq, sq, sj, ww, rsq, bown, 
                                   bwk, bi, bcur, bw, bsp, jq, jj, jwk, fj, dq, 
                                   dj, oq, oop, omode, oj, yq, yop, yclaimed, 
                                   tq, top, af, wf, wop, sf, sctx, xf, cop, kj, 
                                   pp, pwk, np, nbp, nres, dp, pf, pctx, pq, 
                                   pj, pd, nq >>

RunOne(self) == ro_deq(self) \/ z_ro_after(self) \/ z_ro_done(self)
                   \/ z_ro_panic(self) \/ ro_park(self) \/ ro_check(self)
                   \/ ro_parked(self)

sy_decide(self) == /\ pc[self] = "sy_decide"
                   /\ IF qstate[yq[self]] \in {"Running", "WaitingForWake", "WaitingForUnpark", "WaitingForPoll", "AwokenWhileRunning"}
                         THEN /\ pc' = [pc EXCEPT ![self] = "sb_reg"]
                              /\ UNCHANGED << qstate, jkind, rv, stack, jq, jj, 
                                              jwk, yq, yop, yclaimed >>
                         ELSE /\ IF qstate[yq[self]] = "Panicked"
                                    THEN /\ rv' = [rv EXCEPT ![self] = 2]
                                         /\ pc' = [pc EXCEPT ![self] = Head(stack[self]).pc]
                                         /\ yclaimed' = [yclaimed EXCEPT ![self] = Head(stack[self]).yclaimed]
                                         /\ yq' = [yq EXCEPT ![self] = Head(stack[self]).yq]
                                         /\ yop' = [yop EXCEPT ![self] = Head(stack[self]).yop]
                                         /\ stack' = [stack EXCEPT ![self] = Tail(stack[self])]
                                         /\ UNCHANGED << qstate, jkind, jq, jj, 
                                                         jwk >>
                                    ELSE /\ IF qstate[yq[self]] = "Pending"
                                               THEN /\ qstate' = [qstate EXCEPT ![yq[self]] = "Running"]
                                                    /\ pc' = [pc EXCEPT ![self] = "sd_push"]
                                                    /\ UNCHANGED << jkind, 
                                                                    stack, jq, 
                                                                    jj, jwk >>
                                               ELSE /\ qstate' = [qstate EXCEPT ![yq[self]] = "Running"]
                                                    /\ IF jobs[yq[self]] = << >>
                                                          THEN /\ jkind' = [jkind EXCEPT ![yop[self]] = "imm"]
                                                               /\ /\ jj' = [jj EXCEPT ![self] = yop[self]]
                                                                  /\ jq' = [jq EXCEPT ![self] = yq[self]]
                                                                  /\ jwk' = [jwk EXCEPT ![self] = NoW]
                                                                  /\ stack' = [stack EXCEPT ![self] = << [ procedure |->  "RunJob",
                                                                                                           pc        |->  "z_si_chk",
                                                                                                           jq        |->  jq[self],
                                                                                                           jj        |->  jj[self],
                                                                                                           jwk       |->  jwk[self] ] >>
                                                                                                       \o stack[self]]
                                                               /\ pc' = [pc EXCEPT ![self] = "z_rj"]
                                                          ELSE /\ pc' = [pc EXCEPT ![self] = "sd_push"]
                                                               /\ UNCHANGED << jkind, 
                                                                               stack, 
                                                                               jq, 
                                                                               jj, 
                                                                               jwk >>
                                         /\ UNCHANGED << rv, yq, yop, yclaimed >>
                   /\ UNCHANGED << qpoll, jobs, wakeBlocked, schedule, 
                                   pthreads, nspawned, palive, busy, 
                                   busyLocked, inbox, chanOpen, pfin, thrHeld, 
                                   maxThreads, jaw, fres, fwaker, gfired, 
                                   gwaker, gthreads, gwhist, dwSt, dwW, 
                                   dblTaken, dblW1, dblW2, nextDW, ready, 
                                   cwait, cnotif, cvHeld, sdres, jpanic, sfst, 
                                   slotSt, qrSent, qrWaker, dnState, 
                                   susDropped, dnWaker, parkTok, barGen, myBar, 
                                   cdone, rwb, rneed, stres, spName, dsl, 
                                   atomic, strong, ppPending, ppClosed, 
                                   ppNotify, ppNC, ppBP, ppDepth, ppAlive, 
                                   ppHeld, inItems, inClosed, inWaker, pollFn, 
                                   chuteFn, pwTaken, nextPoll, ppItem, pjLive, 
                                   ppStage, h, dead, sti, smax, rq, sq, sj, ww, 
                                   rsq, bown, bwk, bi, bcur, bw, bsp, fj, dq, 
                                   dj, oq, oop, omode, oj, tq, top, af, wf, 
                                   wop, sf, sctx, xf, cop, kj, pp, pwk, np, 
                                   nbp, nres, dp, pf, pctx, pq, pj, pd, nq >>

z_si_chk(self) == /\ pc[self] = "z_si_chk"
                  /\ IF rv[self] = 9
                        THEN /\ pc' = [pc EXCEPT ![self] = "sy_panic"]
                        ELSE /\ pc' = [pc EXCEPT ![self] = "si_idle"]
                  /\ UNCHANGED << qstate, qpoll, jobs, wakeBlocked, schedule, 
                                  pthreads, nspawned, palive, busy, busyLocked, 
                                  inbox, chanOpen, pfin, thrHeld, maxThreads, 
                                  jkind, jaw, fres, fwaker, gfired, gwaker, 
                                  gthreads, gwhist, dwSt, dwW, dblTaken, dblW1, 
                                  dblW2, nextDW, ready, cwait, cnotif, cvHeld, 
                                  sdres, jpanic, sfst, slotSt, qrSent, qrWaker, 
                                  dnState, susDropped, dnWaker, parkTok, 
                                  barGen, myBar, cdone, rv, rwb, rneed, stres, 
                                  spName, dsl, atomic, strong, ppPending, 
                                  ppClosed, ppNotify, ppNC, ppBP, ppDepth, 
                                  ppAlive, ppHeld, inItems, inClosed, inWaker, 
                                  pollFn, chuteFn, pwTaken, nextPoll, ppItem, 
                                  pjLive, ppStage, h, stack, dead, sti, smax, 
                                  rq, sq, sj, ww, rsq, bown, bwk, bi, bcur, bw, 
                                  bsp, jq, jj, jwk, fj, dq, dj, oq, oop, omode, 
                                  oj, yq, yop, yclaimed, tq, top, af, wf, wop, 
                                  sf, sctx, xf, cop, kj, pp, pwk, np, nbp, 
                                  nres, dp, pf, pctx, pq, pj, pd, nq >>

si_idle(self) == /\ pc[self] = "si_idle"
                 /\ qstate' = [qstate EXCEPT ![yq[self]] = "Idle"]
                 /\ /\ rq' = [rq EXCEPT ![self] = yq[self]]
                    /\ stack' = [stack EXCEPT ![self] = << [ procedure |->  "Reschedule",
                                                             pc        |->  "z_si_ret",
                                                             rq        |->  rq[self] ] >>
                                                         \o stack[self]]
                 /\ pc' = [pc EXCEPT ![self] = "rq_core"]
                 /\ UNCHANGED << qpoll, jobs, wakeBlocked, schedule, pthreads, 
                                 nspawned, palive, busy, busyLocked, inbox, 
                                 chanOpen, pfin, thrHeld, maxThreads, jkind, 
                                 jaw, fres, fwaker, gfired, gwaker, gthreads, 
                                 gwhist, dwSt, dwW, dblTaken, dblW1, dblW2, 
                                 nextDW, ready, cwait, cnotif, cvHeld, sdres, 
                                 jpanic, sfst, slotSt, qrSent, qrWaker, 
                                 dnState, susDropped, dnWaker, parkTok, barGen, 
                                 myBar, cdone, rv, rwb, rneed, stres, spName, 
                                 dsl, atomic, strong, ppPending, ppClosed, 
                                 ppNotify, ppNC, ppBP, ppDepth, ppAlive, 
                                 ppHeld, inItems, inClosed, inWaker, pollFn, 
                                 chuteFn, pwTaken, nextPoll, ppItem, pjLive, 
                                 ppStage, h, dead, sti, smax, sq, sj, ww, rsq, 
                                 bown, bwk, bi, bcur, bw, bsp, jq, jj, jwk, fj, 
                                 dq, dj, oq, oop, omode, oj, yq, yop, yclaimed, 
                                 tq, top, af, wf, wop, sf, sctx, xf, cop, kj, 
                                 pp, pwk, np, nbp, nres, dp, pf, pctx, pq, pj, 
                                 pd, nq >>

z_si_ret(self) == /\ pc[self] = "z_si_ret"
                  /\ IF Unw(yop[self])
                        THEN /\ pc' = [pc EXCEPT ![self] = "sy_unw"]
                             /\ UNCHANGED << rv, stack, yq, yop, yclaimed >>
                        ELSE /\ rv' = [rv EXCEPT ![self] = 0]
                             /\ pc' = [pc EXCEPT ![self] = Head(stack[self]).pc]
                             /\ yclaimed' = [yclaimed EXCEPT ![self] = Head(stack[self]).yclaimed]
                             /\ yq' = [yq EXCEPT ![self] = Head(stack[self]).yq]
                             /\ yop' = [yop EXCEPT ![self] = Head(stack[self]).yop]
                             /\ stack' = [stack EXCEPT ![self] = Tail(stack[self])]
                  /\ UNCHANGED << qstate, qpoll, jobs, wakeBlocked, schedule, 
                                  pthreads, nspawned, palive, busy, busyLocked, 
                                  inbox, chanOpen, pfin, thrHeld, maxThreads, 
                                  jkind, jaw, fres, fwaker, gfired, gwaker, 
                                  gthreads, gwhist, dwSt, dwW, dblTaken, dblW1, 
                                  dblW2, nextDW, ready, cwait, cnotif, cvHeld, 
                                  sdres, jpanic, sfst, slotSt, qrSent, qrWaker, 
                                  dnState, susDropped, dnWaker, parkTok, 
                                  barGen, myBar, cdone, rwb, rneed, stres, 
                                  spName, dsl, atomic, strong, ppPending, 
                                  ppClosed, ppNotify, ppNC, ppBP, ppDepth, 
                                  ppAlive, ppHeld, inItems, inClosed, inWaker, 
                                  pollFn, chuteFn, pwTaken, nextPoll, ppItem, 
                                  pjLive, ppStage, h, dead, sti, smax, rq, sq, 
                                  sj, ww, rsq, bown, bwk, bi, bcur, bw, bsp, 
                                  jq, jj, jwk, fj, dq, dj, oq, oop, omode, oj, 
                                  tq, top, af, wf, wop, sf, sctx, xf, cop, kj, 
                                  pp, pwk, np, nbp, nres, dp, pf, pctx, pq, pj, 
                                  pd, nq >>

sy_unw(self) == /\ pc[self] = "sy_unw"
                /\ qstate' = [qstate EXCEPT ![yq[self]] = "Panicked"]
                /\ rv' = [rv EXCEPT ![self] = 0]
                /\ pc' = [pc EXCEPT ![self] = Head(stack[self]).pc]
                /\ yclaimed' = [yclaimed EXCEPT ![self] = Head(stack[self]).yclaimed]
                /\ yq' = [yq EXCEPT ![self] = Head(stack[self]).yq]
                /\ yop' = [yop EXCEPT ![self] = Head(stack[self]).yop]
                /\ stack' = [stack EXCEPT ![self] = Tail(stack[self])]
                /\ UNCHANGED << qpoll, jobs, wakeBlocked, schedule, pthreads, 
                                nspawned, palive, busy, busyLocked, inbox, 
                                chanOpen, pfin, thrHeld, maxThreads, jkind, 
                                jaw, fres, fwaker, gfired, gwaker, gthreads, 
                                gwhist, dwSt, dwW, dblTaken, dblW1, dblW2, 
                                nextDW, ready, cwait, cnotif, cvHeld, sdres, 
                                jpanic, sfst, slotSt, qrSent, qrWaker, dnState, 
                                susDropped, dnWaker, parkTok, barGen, myBar, 
                                cdone, rwb, rneed, stres, spName, dsl, atomic, 
                                strong, ppPending, ppClosed, ppNotify, ppNC, 
                                ppBP, ppDepth, ppAlive, ppHeld, inItems, 
                                inClosed, inWaker, pollFn, chuteFn, pwTaken, 
                                nextPoll, ppItem, pjLive, ppStage, h, dead, 
                                sti, smax, rq, sq, sj, ww, rsq, bown, bwk, bi, 
                                bcur, bw, bsp, jq, jj, jwk, fj, dq, dj, oq, 
                                oop, omode, oj, tq, top, af, wf, wop, sf, sctx, 
                                xf, cop, kj, pp, pwk, np, nbp, nres, dp, pf, 
                                pctx, pq, pj, pd, nq >>

sd_push(self) == /\ pc[self] = "sd_push"
                 /\ jkind' = [jkind EXCEPT ![yop[self]] = "syncdrain"]
                 /\ jobs' = [jobs EXCEPT ![yq[self]] = Append(jobs[yq[self]], yop[self])]
                 /\ /\ omode' = [omode EXCEPT ![self] = "sd"]
                    /\ oop' = [oop EXCEPT ![self] = yop[self]]
                    /\ oq' = [oq EXCEPT ![self] = yq[self]]
                    /\ stack' = [stack EXCEPT ![self] = << [ procedure |->  "RunOne",
                                                             pc        |->  "z_sd_chk",
                                                             oj        |->  oj[self],
                                                             oq        |->  oq[self],
                                                             oop       |->  oop[self],
                                                             omode     |->  omode[self] ] >>
                                                         \o stack[self]]
                 /\ oj' = [oj EXCEPT ![self] = 0]
                 /\ pc' = [pc EXCEPT ![self] = "ro_deq"]
                 /\ UNCHANGED << qstate, qpoll, wakeBlocked, schedule, 
                                 pthreads, nspawned, palive, busy, busyLocked, 
                                 inbox, chanOpen, pfin, thrHeld, maxThreads, 
                                 jaw, fres, fwaker, gfired, gwaker, gthreads, 
                                 gwhist, dwSt, dwW, dblTaken, dblW1, dblW2, 
                                 nextDW, ready, cwait, cnotif, cvHeld, sdres, 
                                 jpanic, sfst, slotSt, qrSent, qrWaker, 
                                 dnState, susDropped, dnWaker, parkTok, barGen, 
                                 myBar, cdone, rv, rwb, rneed, stres, spName, 
                                 dsl, atomic, strong, ppPending, ppClosed, 
                                 ppNotify, ppNC, ppBP, ppDepth, ppAlive, 
                                 ppHeld, inItems, inClosed, inWaker, pollFn, 
                                 chuteFn, pwTaken, nextPoll, ppItem, pjLive, 
                                 ppStage, h, dead, sti, smax, rq, sq, sj, ww, 
                                 rsq, bown, bwk, bi, bcur, bw, bsp, jq, jj, 
                                 jwk, fj, dq, dj, yq, yop, yclaimed, tq, top, 
                                 af, wf, wop, sf, sctx, xf, cop, kj, pp, pwk, 
                                 np, nbp, nres, dp, pf, pctx, pq, pj, pd, nq >>

z_sd_chk(self) == /\ pc[self] = "z_sd_chk"
                  /\ IF rv[self] = 9
                        THEN /\ pc' = [pc EXCEPT ![self] = "sy_panic"]
                        ELSE /\ pc' = [pc EXCEPT ![self] = "sd_idle"]
                  /\ UNCHANGED << qstate, qpoll, jobs, wakeBlocked, schedule, 
                                  pthreads, nspawned, palive, busy, busyLocked, 
                                  inbox, chanOpen, pfin, thrHeld, maxThreads, 
                                  jkind, jaw, fres, fwaker, gfired, gwaker, 
                                  gthreads, gwhist, dwSt, dwW, dblTaken, dblW1, 
                                  dblW2, nextDW, ready, cwait, cnotif, cvHeld, 
                                  sdres, jpanic, sfst, slotSt, qrSent, qrWaker, 
                                  dnState, susDropped, dnWaker, parkTok, 
                                  barGen, myBar, cdone, rv, rwb, rneed, stres, 
                                  spName, dsl, atomic, strong, ppPending, 
                                  ppClosed, ppNotify, ppNC, ppBP, ppDepth, 
                                  ppAlive, ppHeld, inItems, inClosed, inWaker, 
                                  pollFn, chuteFn, pwTaken, nextPoll, ppItem, 
                                  pjLive, ppStage, h, stack, dead, sti, smax, 
                                  rq, sq, sj, ww, rsq, bown, bwk, bi, bcur, bw, 
                                  bsp, jq, jj, jwk, fj, dq, dj, oq, oop, omode, 
                                  oj, yq, yop, yclaimed, tq, top, af, wf, wop, 
                                  sf, sctx, xf, cop, kj, pp, pwk, np, nbp, 
                                  nres, dp, pf, pctx, pq, pj, pd, nq >>

sd_idle(self) == /\ pc[self] = "sd_idle"
                 /\ qstate' = [qstate EXCEPT ![yq[self]] = "Idle"]
                 /\ /\ rq' = [rq EXCEPT ![self] = yq[self]]
                    /\ stack' = [stack EXCEPT ![self] = << [ procedure |->  "Reschedule",
                                                             pc        |->  "z_si_ret",
                                                             rq        |->  rq[self] ] >>
                                                         \o stack[self]]
                 /\ pc' = [pc EXCEPT ![self] = "rq_core"]
                 /\ UNCHANGED << qpoll, jobs, wakeBlocked, schedule, pthreads, 
                                 nspawned, palive, busy, busyLocked, inbox, 
                                 chanOpen, pfin, thrHeld, maxThreads, jkind, 
                                 jaw, fres, fwaker, gfired, gwaker, gthreads, 
                                 gwhist, dwSt, dwW, dblTaken, dblW1, dblW2, 
                                 nextDW, ready, cwait, cnotif, cvHeld, sdres, 
                                 jpanic, sfst, slotSt, qrSent, qrWaker, 
                                 dnState, susDropped, dnWaker, parkTok, barGen, 
                                 myBar, cdone, rv, rwb, rneed, stres, spName, 
                                 dsl, atomic, strong, ppPending, ppClosed, 
                                 ppNotify, ppNC, ppBP, ppDepth, ppAlive, 
                                 ppHeld, inItems, inClosed, inWaker, pollFn, 
                                 chuteFn, pwTaken, nextPoll, ppItem, pjLive, 
                                 ppStage, h, dead, sti, smax, sq, sj, ww, rsq, 
                                 bown, bwk, bi, bcur, bw, bsp, jq, jj, jwk, fj, 
                                 dq, dj, oq, oop, omode, oj, yq, yop, yclaimed, 
                                 tq, top, af, wf, wop, sf, sctx, xf, cop, kj, 
                                 pp, pwk, np, nbp, nres, dp, pf, pctx, pq, pj, 
                                 pd, nq >>

sb_reg(self) == /\ pc[self] = "sb_reg"
                /\ wakeBlocked' = [wakeBlocked EXCEPT ![yq[self]] = Append(wakeBlocked[yq[self]], yop[self])]
                /\ cvHeld' = [cvHeld EXCEPT ![yop[self]] = TRUE]
                /\ pc' = [pc EXCEPT ![self] = "sb_push"]
                /\ UNCHANGED << qstate, qpoll, jobs, schedule, pthreads, 
                                nspawned, palive, busy, busyLocked, inbox, 
                                chanOpen, pfin, thrHeld, maxThreads, jkind, 
                                jaw, fres, fwaker, gfired, gwaker, gthreads, 
                                gwhist, dwSt, dwW, dblTaken, dblW1, dblW2, 
                                nextDW, ready, cwait, cnotif, sdres, jpanic, 
                                sfst, slotSt, qrSent, qrWaker, dnState, 
                                susDropped, dnWaker, parkTok, barGen, myBar, 
                                cdone, rv, rwb, rneed, stres, spName, dsl, 
                                atomic, strong, ppPending, ppClosed, ppNotify, 
                                ppNC, ppBP, ppDepth, ppAlive, ppHeld, inItems, 
                                inClosed, inWaker, pollFn, chuteFn, pwTaken, 
                                nextPoll, ppItem, pjLive, ppStage, h, stack, 
                                dead, sti, smax, rq, sq, sj, ww, rsq, bown, 
                                bwk, bi, bcur, bw, bsp, jq, jj, jwk, fj, dq, 
                                dj, oq, oop, omode, oj, yq, yop, yclaimed, tq, 
                                top, af, wf, wop, sf, sctx, xf, cop, kj, pp, 
                                pwk, np, nbp, nres, dp, pf, pctx, pq, pj, pd, 
                                nq >>

sb_push(self) == /\ pc[self] = "sb_push"
                 /\ jkind' = [jkind EXCEPT ![yop[self]] = "syncbg"]
                 /\ jobs' = [jobs EXCEPT ![yq[self]] = Append(jobs[yq[self]], yop[self])]
                 /\ IF qstate[yq[self]] = "Idle"
                       THEN /\ /\ rq' = [rq EXCEPT ![self] = yq[self]]
                               /\ stack' = [stack EXCEPT ![self] = << [ procedure |->  "Reschedule",
                                                                        pc        |->  "sb_lock",
                                                                        rq        |->  rq[self] ] >>
                                                                    \o stack[self]]
                            /\ pc' = [pc EXCEPT ![self] = "rq_core"]
                       ELSE /\ pc' = [pc EXCEPT ![self] = "sb_lock"]
                            /\ UNCHANGED << stack, rq >>
                 /\ UNCHANGED << qstate, qpoll, wakeBlocked, schedule, 
                                 pthreads, nspawned, palive, busy, busyLocked, 
                                 inbox, chanOpen, pfin, thrHeld, maxThreads, 
                                 jaw, fres, fwaker, gfired, gwaker, gthreads, 
                                 gwhist, dwSt, dwW, dblTaken, dblW1, dblW2, 
                                 nextDW, ready, cwait, cnotif, cvHeld, sdres, 
                                 jpanic, sfst, slotSt, qrSent, qrWaker, 
                                 dnState, susDropped, dnWaker, parkTok, barGen, 
                                 myBar, cdone, rv, rwb, rneed, stres, spName, 
                                 dsl, atomic, strong, ppPending, ppClosed, 
                                 ppNotify, ppNC, ppBP, ppDepth, ppAlive, 
                                 ppHeld, inItems, inClosed, inWaker, pollFn, 
                                 chuteFn, pwTaken, nextPoll, ppItem, pjLive, 
                                 ppStage, h, dead, sti, smax, sq, sj, ww, rsq, 
                                 bown, bwk, bi, bcur, bw, bsp, jq, jj, jwk, fj, 
                                 dq, dj, oq, oop, omode, oj, yq, yop, yclaimed, 
                                 tq, top, af, wf, wop, sf, sctx, xf, cop, kj, 
                                 pp, pwk, np, nbp, nres, dp, pf, pctx, pq, pj, 
                                 pd, nq >>

sb_lock(self) == /\ pc[self] = "sb_lock"
                 /\ IF yclaimed[self] /\ Unw(yop[self])
                       THEN /\ qstate' = [qstate EXCEPT ![yq[self]] = "Panicked"]
                       ELSE /\ TRUE
                            /\ UNCHANGED qstate
                 /\ yclaimed' = [yclaimed EXCEPT ![self] = FALSE]
                 /\ pc' = [pc EXCEPT ![self] = "z_sb_lock2"]
                 /\ UNCHANGED << qpoll, jobs, wakeBlocked, schedule, pthreads, 
                                 nspawned, palive, busy, busyLocked, inbox, 
                                 chanOpen, pfin, thrHeld, maxThreads, jkind, 
                                 jaw, fres, fwaker, gfired, gwaker, gthreads, 
                                 gwhist, dwSt, dwW, dblTaken, dblW1, dblW2, 
                                 nextDW, ready, cwait, cnotif, cvHeld, sdres, 
                                 jpanic, sfst, slotSt, qrSent, qrWaker, 
                                 dnState, susDropped, dnWaker, parkTok, barGen, 
                                 myBar, cdone, rv, rwb, rneed, stres, spName, 
                                 dsl, atomic, strong, ppPending, ppClosed, 
                                 ppNotify, ppNC, ppBP, ppDepth, ppAlive, 
                                 ppHeld, inItems, inClosed, inWaker, pollFn, 
                                 chuteFn, pwTaken, nextPoll, ppItem, pjLive, 
                                 ppStage, h, stack, dead, sti, smax, rq, sq, 
                                 sj, ww, rsq, bown, bwk, bi, bcur, bw, bsp, jq, 
                                 jj, jwk, fj, dq, dj, oq, oop, omode, oj, yq, 
                                 yop, tq, top, af, wf, wop, sf, sctx, xf, cop, 
                                 kj, pp, pwk, np, nbp, nres, dp, pf, pctx, pq, 
                                 pj, pd, nq >>

z_sb_lock2(self) == /\ pc[self] = "z_sb_lock2"
                    /\ IF ready[yop[self]]
                          THEN /\ cvHeld' = [cvHeld EXCEPT ![yop[self]] = FALSE]
                               /\ pc' = [pc EXCEPT ![self] = "sb_fin"]
                               /\ UNCHANGED << qstate, schedule, cwait, cnotif, 
                                               yclaimed >>
                          ELSE /\ IF FixD3 /\ Claimable(yq[self])
                                     THEN /\ qstate' = [qstate EXCEPT ![yq[self]] = "Running"]
                                          /\ schedule' = SelectSeq(schedule, LAMBDA x : x # yq[self])
                                          /\ yclaimed' = [yclaimed EXCEPT ![self] = TRUE]
                                          /\ pc' = [pc EXCEPT ![self] = "sb_chk"]
                                          /\ UNCHANGED << cwait, cnotif >>
                                     ELSE /\ cwait' = [cwait EXCEPT ![yop[self]] = TRUE]
                                          /\ cnotif' = [cnotif EXCEPT ![yop[self]] = FALSE]
                                          /\ pc' = [pc EXCEPT ![self] = "sb_wait"]
                                          /\ UNCHANGED << qstate, schedule, 
                                                          yclaimed >>
                               /\ UNCHANGED cvHeld
                    /\ UNCHANGED << qpoll, jobs, wakeBlocked, pthreads, 
                                    nspawned, palive, busy, busyLocked, inbox, 
                                    chanOpen, pfin, thrHeld, maxThreads, jkind, 
                                    jaw, fres, fwaker, gfired, gwaker, 
                                    gthreads, gwhist, dwSt, dwW, dblTaken, 
                                    dblW1, dblW2, nextDW, ready, sdres, jpanic, 
                                    sfst, slotSt, qrSent, qrWaker, dnState, 
                                    susDropped, dnWaker, parkTok, barGen, 
                                    myBar, cdone, rv, rwb, rneed, stres, 
                                    spName, dsl, atomic, strong, ppPending, 
                                    ppClosed, ppNotify, ppNC, ppBP, ppDepth, 
                                    ppAlive, ppHeld, inItems, inClosed, 
                                    inWaker, pollFn, chuteFn, pwTaken, 
                                    nextPoll, ppItem, pjLive, ppStage, h, 
                                    stack, dead, sti, smax, rq, sq, sj, ww, 
                                    rsq, bown, bwk, bi, bcur, bw, bsp, jq, jj, 
                                    jwk, fj, dq, dj, oq, oop, omode, oj, yq, 
                                    yop, tq, top, af, wf, wop, sf, sctx, xf, 
                                    cop, kj, pp, pwk, np, nbp, nres, dp, pf, 
                                    pctx, pq, pj, pd, nq >>

sb_claim(self) == /\ pc[self] = "sb_claim"
                  /\ IF qstate[yq[self]] \in {"Pending", "Idle"}
                        THEN /\ qstate' = [qstate EXCEPT ![yq[self]] = "Running"]
                             /\ schedule' = SelectSeq(schedule, LAMBDA x : x # yq[self])
                             /\ yclaimed' = [yclaimed EXCEPT ![self] = TRUE]
                             /\ pc' = [pc EXCEPT ![self] = "sb_chk"]
                        ELSE /\ pc' = [pc EXCEPT ![self] = "sb_lock"]
                             /\ UNCHANGED << qstate, schedule, yclaimed >>
                  /\ UNCHANGED << qpoll, jobs, wakeBlocked, pthreads, nspawned, 
                                  palive, busy, busyLocked, inbox, chanOpen, 
                                  pfin, thrHeld, maxThreads, jkind, jaw, fres, 
                                  fwaker, gfired, gwaker, gthreads, gwhist, 
                                  dwSt, dwW, dblTaken, dblW1, dblW2, nextDW, 
                                  ready, cwait, cnotif, cvHeld, sdres, jpanic, 
                                  sfst, slotSt, qrSent, qrWaker, dnState, 
                                  susDropped, dnWaker, parkTok, barGen, myBar, 
                                  cdone, rv, rwb, rneed, stres, spName, dsl, 
                                  atomic, strong, ppPending, ppClosed, 
                                  ppNotify, ppNC, ppBP, ppDepth, ppAlive, 
                                  ppHeld, inItems, inClosed, inWaker, pollFn, 
                                  chuteFn, pwTaken, nextPoll, ppItem, pjLive, 
                                  ppStage, h, stack, dead, sti, smax, rq, sq, 
                                  sj, ww, rsq, bown, bwk, bi, bcur, bw, bsp, 
                                  jq, jj, jwk, fj, dq, dj, oq, oop, omode, oj, 
                                  yq, yop, tq, top, af, wf, wop, sf, sctx, xf, 
                                  cop, kj, pp, pwk, np, nbp, nres, dp, pf, 
                                  pctx, pq, pj, pd, nq >>

sb_chk(self) == /\ pc[self] = "sb_chk"
                /\ IF ~ready[yop[self]]
                      THEN /\ /\ omode' = [omode EXCEPT ![self] = "sb"]
                              /\ oop' = [oop EXCEPT ![self] = yop[self]]
                              /\ oq' = [oq EXCEPT ![self] = yq[self]]
                              /\ stack' = [stack EXCEPT ![self] = << [ procedure |->  "RunOne",
                                                                       pc        |->  "z_sb_chk",
                                                                       oj        |->  oj[self],
                                                                       oq        |->  oq[self],
                                                                       oop       |->  oop[self],
                                                                       omode     |->  omode[self] ] >>
                                                                   \o stack[self]]
                           /\ oj' = [oj EXCEPT ![self] = 0]
                           /\ pc' = [pc EXCEPT ![self] = "ro_deq"]
                      ELSE /\ pc' = [pc EXCEPT ![self] = "sb_idle"]
                           /\ UNCHANGED << stack, oq, oop, omode, oj >>
                /\ UNCHANGED << qstate, qpoll, jobs, wakeBlocked, schedule, 
                                pthreads, nspawned, palive, busy, busyLocked, 
                                inbox, chanOpen, pfin, thrHeld, maxThreads, 
                                jkind, jaw, fres, fwaker, gfired, gwaker, 
                                gthreads, gwhist, dwSt, dwW, dblTaken, dblW1, 
                                dblW2, nextDW, ready, cwait, cnotif, cvHeld, 
                                sdres, jpanic, sfst, slotSt, qrSent, qrWaker, 
                                dnState, susDropped, dnWaker, parkTok, barGen, 
                                myBar, cdone, rv, rwb, rneed, stres, spName, 
                                dsl, atomic, strong, ppPending, ppClosed, 
                                ppNotify, ppNC, ppBP, ppDepth, ppAlive, ppHeld, 
                                inItems, inClosed, inWaker, pollFn, chuteFn, 
                                pwTaken, nextPoll, ppItem, pjLive, ppStage, h, 
                                dead, sti, smax, rq, sq, sj, ww, rsq, bown, 
                                bwk, bi, bcur, bw, bsp, jq, jj, jwk, fj, dq, 
                                dj, yq, yop, yclaimed, tq, top, af, wf, wop, 
                                sf, sctx, xf, cop, kj, pp, pwk, np, nbp, nres, 
                                dp, pf, pctx, pq, pj, pd, nq >>

sb_idle(self) == /\ pc[self] = "sb_idle"
                 /\ qstate' = [qstate EXCEPT ![yq[self]] = "Idle"]
                 /\ /\ rq' = [rq EXCEPT ![self] = yq[self]]
                    /\ stack' = [stack EXCEPT ![self] = << [ procedure |->  "Reschedule",
                                                             pc        |->  "sb_lock",
                                                             rq        |->  rq[self] ] >>
                                                         \o stack[self]]
                 /\ pc' = [pc EXCEPT ![self] = "rq_core"]
                 /\ UNCHANGED << qpoll, jobs, wakeBlocked, schedule, pthreads, 
                                 nspawned, palive, busy, busyLocked, inbox, 
                                 chanOpen, pfin, thrHeld, maxThreads, jkind, 
                                 jaw, fres, fwaker, gfired, gwaker, gthreads, 
                                 gwhist, dwSt, dwW, dblTaken, dblW1, dblW2, 
                                 nextDW, ready, cwait, cnotif, cvHeld, sdres, 
                                 jpanic, sfst, slotSt, qrSent, qrWaker, 
                                 dnState, susDropped, dnWaker, parkTok, barGen, 
                                 myBar, cdone, rv, rwb, rneed, stres, spName, 
                                 dsl, atomic, strong, ppPending, ppClosed, 
                                 ppNotify, ppNC, ppBP, ppDepth, ppAlive, 
                                 ppHeld, inItems, inClosed, inWaker, pollFn, 
                                 chuteFn, pwTaken, nextPoll, ppItem, pjLive, 
                                 ppStage, h, dead, sti, smax, sq, sj, ww, rsq, 
                                 bown, bwk, bi, bcur, bw, bsp, jq, jj, jwk, fj, 
                                 dq, dj, oq, oop, omode, oj, yq, yop, yclaimed, 
                                 tq, top, af, wf, wop, sf, sctx, xf, cop, kj, 
                                 pp, pwk, np, nbp, nres, dp, pf, pctx, pq, pj, 
                                 pd, nq >>

z_sb_chk(self) == /\ pc[self] = "z_sb_chk"
                  /\ IF rv[self] = 9
                        THEN /\ cvHeld' = [cvHeld EXCEPT ![yop[self]] = (yop[self] \in SeqSet(jobs[yq[self]]))]
                             /\ IF FixD6
                                   THEN /\ pc' = [pc EXCEPT ![self] = "sy_panic"]
                                        /\ UNCHANGED << rv, stack, yq, yop, 
                                                        yclaimed >>
                                   ELSE /\ rv' = [rv EXCEPT ![self] = 2]
                                        /\ pc' = [pc EXCEPT ![self] = Head(stack[self]).pc]
                                        /\ yclaimed' = [yclaimed EXCEPT ![self] = Head(stack[self]).yclaimed]
                                        /\ yq' = [yq EXCEPT ![self] = Head(stack[self]).yq]
                                        /\ yop' = [yop EXCEPT ![self] = Head(stack[self]).yop]
                                        /\ stack' = [stack EXCEPT ![self] = Tail(stack[self])]
                        ELSE /\ pc' = [pc EXCEPT ![self] = "sb_chk"]
                             /\ UNCHANGED << cvHeld, rv, stack, yq, yop, 
                                             yclaimed >>
                  /\ UNCHANGED << qstate, qpoll, jobs, wakeBlocked, schedule, 
                                  pthreads, nspawned, palive, busy, busyLocked, 
                                  inbox, chanOpen, pfin, thrHeld, maxThreads, 
                                  jkind, jaw, fres, fwaker, gfired, gwaker, 
                                  gthreads, gwhist, dwSt, dwW, dblTaken, dblW1, 
                                  dblW2, nextDW, ready, cwait, cnotif, sdres, 
                                  jpanic, sfst, slotSt, qrSent, qrWaker, 
                                  dnState, susDropped, dnWaker, parkTok, 
                                  barGen, myBar, cdone, rwb, rneed, stres, 
                                  spName, dsl, atomic, strong, ppPending, 
                                  ppClosed, ppNotify, ppNC, ppBP, ppDepth, 
                                  ppAlive, ppHeld, inItems, inClosed, inWaker, 
                                  pollFn, chuteFn, pwTaken, nextPoll, ppItem, 
                                  pjLive, ppStage, h, dead, sti, smax, rq, sq, 
                                  sj, ww, rsq, bown, bwk, bi, bcur, bw, bsp, 
                                  jq, jj, jwk, fj, dq, dj, oq, oop, omode, oj, 
                                  tq, top, af, wf, wop, sf, sctx, xf, cop, kj, 
                                  pp, pwk, np, nbp, nres, dp, pf, pctx, pq, pj, 
                                  pd, nq >>

sb_wait(self) == /\ pc[self] = "sb_wait"
                 /\ cnotif[yop[self]]
                 /\ h' = ObsBlocked(h, self)
                 /\ IF ready[yop[self]]
                       THEN /\ cwait' = [cwait EXCEPT ![yop[self]] = FALSE]
                            /\ cnotif' = [cnotif EXCEPT ![yop[self]] = FALSE]
                            /\ cvHeld' = [cvHeld EXCEPT ![yop[self]] = FALSE]
                            /\ pc' = [pc EXCEPT ![self] = "sb_fin"]
                            /\ UNCHANGED << qstate, schedule, yclaimed >>
                       ELSE /\ IF ~FixD3
                                  THEN /\ cwait' = [cwait EXCEPT ![yop[self]] = FALSE]
                                       /\ cnotif' = [cnotif EXCEPT ![yop[self]] = FALSE]
                                       /\ pc' = [pc EXCEPT ![self] = "sb_claim"]
                                       /\ UNCHANGED << qstate, schedule, 
                                                       yclaimed >>
                                  ELSE /\ IF Claimable(yq[self])
                                             THEN /\ cwait' = [cwait EXCEPT ![yop[self]] = FALSE]
                                                  /\ cnotif' = [cnotif EXCEPT ![yop[self]] = FALSE]
                                                  /\ qstate' = [qstate EXCEPT ![yq[self]] = "Running"]
                                                  /\ schedule' = SelectSeq(schedule, LAMBDA x : x # yq[self])
                                                  /\ yclaimed' = [yclaimed EXCEPT ![self] = TRUE]
                                                  /\ pc' = [pc EXCEPT ![self] = "sb_chk"]
                                             ELSE /\ cnotif' = [cnotif EXCEPT ![yop[self]] = FALSE]
                                                  /\ pc' = [pc EXCEPT ![self] = "sb_wait"]
                                                  /\ UNCHANGED << qstate, 
                                                                  schedule, 
                                                                  cwait, 
                                                                  yclaimed >>
                            /\ UNCHANGED cvHeld
                 /\ UNCHANGED << qpoll, jobs, wakeBlocked, pthreads, nspawned, 
                                 palive, busy, busyLocked, inbox, chanOpen, 
                                 pfin, thrHeld, maxThreads, jkind, jaw, fres, 
                                 fwaker, gfired, gwaker, gthreads, gwhist, 
                                 dwSt, dwW, dblTaken, dblW1, dblW2, nextDW, 
                                 ready, sdres, jpanic, sfst, slotSt, qrSent, 
                                 qrWaker, dnState, susDropped, dnWaker, 
                                 parkTok, barGen, myBar, cdone, rv, rwb, rneed, 
                                 stres, spName, dsl, atomic, strong, ppPending, 
                                 ppClosed, ppNotify, ppNC, ppBP, ppDepth, 
                                 ppAlive, ppHeld, inItems, inClosed, inWaker, 
                                 pollFn, chuteFn, pwTaken, nextPoll, ppItem, 
                                 pjLive, ppStage, stack, dead, sti, smax, rq, 
                                 sq, sj, ww, rsq, bown, bwk, bi, bcur, bw, bsp, 
                                 jq, jj, jwk, fj, dq, dj, oq, oop, omode, oj, 
                                 yq, yop, tq, top, af, wf, wop, sf, sctx, xf, 
                                 cop, kj, pp, pwk, np, nbp, nres, dp, pf, pctx, 
                                 pq, pj, pd, nq >>

sb_fin(self) == /\ pc[self] = "sb_fin"
                /\ wakeBlocked' = [wakeBlocked EXCEPT ![yq[self]] = SelectSeq(wakeBlocked[yq[self]], LAMBDA x : (x # yop[self] /\ CvAlive(x)) \/ (x = yop[self] /\ \E t \in Procs : yop[self] \in SeqSet(rwb[t])))]
                /\ rv' = [rv EXCEPT ![self] = 0]
                /\ pc' = [pc EXCEPT ![self] = Head(stack[self]).pc]
                /\ yclaimed' = [yclaimed EXCEPT ![self] = Head(stack[self]).yclaimed]
                /\ yq' = [yq EXCEPT ![self] = Head(stack[self]).yq]
                /\ yop' = [yop EXCEPT ![self] = Head(stack[self]).yop]
                /\ stack' = [stack EXCEPT ![self] = Tail(stack[self])]
                /\ UNCHANGED << qstate, qpoll, jobs, schedule, pthreads, 
                                nspawned, palive, busy, busyLocked, inbox, 
                                chanOpen, pfin, thrHeld, maxThreads, jkind, 
                                jaw, fres, fwaker, gfired, gwaker, gthreads, 
                                gwhist, dwSt, dwW, dblTaken, dblW1, dblW2, 
                                nextDW, ready, cwait, cnotif, cvHeld, sdres, 
                                jpanic, sfst, slotSt, qrSent, qrWaker, dnState, 
                                susDropped, dnWaker, parkTok, barGen, myBar, 
                                cdone, rwb, rneed, stres, spName, dsl, atomic, 
                                strong, ppPending, ppClosed, ppNotify, ppNC, 
                                ppBP, ppDepth, ppAlive, ppHeld, inItems, 
                                inClosed, inWaker, pollFn, chuteFn, pwTaken, 
                                nextPoll, ppItem, pjLive, ppStage, h, dead, 
                                sti, smax, rq, sq, sj, ww, rsq, bown, bwk, bi, 
                                bcur, bw, bsp, jq, jj, jwk, fj, dq, dj, oq, 
                                oop, omode, oj, tq, top, af, wf, wop, sf, sctx, 
                                xf, cop, kj, pp, pwk, np, nbp, nres, dp, pf, 
                                pctx, pq, pj, pd, nq >>

sy_panic(self) == /\ pc[self] = "sy_panic"
                  /\ qstate' = [qstate EXCEPT ![yq[self]] = "Panicked"]
                  /\ rv' = [rv EXCEPT ![self] = 2]
                  /\ pc' = [pc EXCEPT ![self] = Head(stack[self]).pc]
                  /\ yclaimed' = [yclaimed EXCEPT ![self] = Head(stack[self]).yclaimed]
                  /\ yq' = [yq EXCEPT ![self] = Head(stack[self]).yq]
                  /\ yop' = [yop EXCEPT ![self] = Head(stack[self]).yop]
                  /\ stack' = [stack EXCEPT ![self] = Tail(stack[self])]
                  /\ UNCHANGED << qpoll, jobs, wakeBlocked, schedule, pthreads, 
                                  nspawned, palive, busy, busyLocked, inbox, 
                                  chanOpen, pfin, thrHeld, maxThreads, jkind, 
                                  jaw, fres, fwaker, gfired, gwaker, gthreads, 
                                  gwhist, dwSt, dwW, dblTaken, dblW1, dblW2, 
                                  nextDW, ready, cwait, cnotif, cvHeld, sdres, 
                                  jpanic, sfst, slotSt, qrSent, qrWaker, 
                                  dnState, susDropped, dnWaker, parkTok, 
                                  barGen, myBar, cdone, rwb, rneed, stres, 
                                  spName, dsl, atomic, strong, ppPending, 
                                  ppClosed, ppNotify, ppNC, ppBP, ppDepth, 
                                  ppAlive, ppHeld, inItems, inClosed, inWaker, 
                                  pollFn, chuteFn, pwTaken, nextPoll, ppItem, 
                                  pjLive, ppStage, h, dead, sti, smax, rq, sq, 
                                  sj, ww, rsq, bown, bwk, bi, bcur, bw, bsp, 
                                  jq, jj, jwk, fj, dq, dj, oq, oop, omode, oj, 
                                  tq, top, af, wf, wop, sf, sctx, xf, cop, kj, 
                                  pp, pwk, np, nbp, nres, dp, pf, pctx, pq, pj, 
                                  pd, nq >>

Sync(self) == sy_decide(self) \/ z_si_chk(self) \/ si_idle(self)
                 \/ z_si_ret(self) \/ sy_unw(self) \/ sd_push(self)
                 \/ z_sd_chk(self) \/ sd_idle(self) \/ sb_reg(self)
                 \/ sb_push(self) \/ sb_lock(self) \/ z_sb_lock2(self)
                 \/ sb_claim(self) \/ sb_chk(self) \/ sb_idle(self)
                 \/ z_sb_chk(self) \/ sb_wait(self) \/ sb_fin(self)
                 \/ sy_panic(self)

ts_decide(self) == /\ pc[self] = "ts_decide"
                   /\ IF qstate[tq[self]] = "Idle"
                         THEN /\ IF jobs[tq[self]] # << >>
                                    THEN /\ IF ~FixD1
                                               THEN /\ qstate' = [qstate EXCEPT ![tq[self]] = "Running"]
                                               ELSE /\ TRUE
                                                    /\ UNCHANGED qstate
                                         /\ rv' = [rv EXCEPT ![self] = 1]
                                         /\ pc' = [pc EXCEPT ![self] = Head(stack[self]).pc]
                                         /\ tq' = [tq EXCEPT ![self] = Head(stack[self]).tq]
                                         /\ top' = [top EXCEPT ![self] = Head(stack[self]).top]
                                         /\ stack' = [stack EXCEPT ![self] = Tail(stack[self])]
                                         /\ UNCHANGED << jkind, jq, jj, jwk >>
                                    ELSE /\ qstate' = [qstate EXCEPT ![tq[self]] = "Running"]
                                         /\ jkind' = [jkind EXCEPT ![top[self]] = "imm"]
                                         /\ /\ jj' = [jj EXCEPT ![self] = top[self]]
                                            /\ jq' = [jq EXCEPT ![self] = tq[self]]
                                            /\ jwk' = [jwk EXCEPT ![self] = NoW]
                                            /\ stack' = [stack EXCEPT ![self] = << [ procedure |->  "RunJob",
                                                                                     pc        |->  "z_ts_chk",
                                                                                     jq        |->  jq[self],
                                                                                     jj        |->  jj[self],
                                                                                     jwk       |->  jwk[self] ] >>
                                                                                 \o stack[self]]
                                         /\ pc' = [pc EXCEPT ![self] = "z_rj"]
                                         /\ UNCHANGED << rv, tq, top >>
                         ELSE /\ IF qstate[tq[self]] = "Panicked"
                                    THEN /\ rv' = [rv EXCEPT ![self] = 2]
                                         /\ pc' = [pc EXCEPT ![self] = Head(stack[self]).pc]
                                         /\ tq' = [tq EXCEPT ![self] = Head(stack[self]).tq]
                                         /\ top' = [top EXCEPT ![self] = Head(stack[self]).top]
                                         /\ stack' = [stack EXCEPT ![self] = Tail(stack[self])]
                                    ELSE /\ rv' = [rv EXCEPT ![self] = 1]
                                         /\ pc' = [pc EXCEPT ![self] = Head(stack[self]).pc]
                                         /\ tq' = [tq EXCEPT ![self] = Head(stack[self]).tq]
                                         /\ top' = [top EXCEPT ![self] = Head(stack[self]).top]
                                         /\ stack' = [stack EXCEPT ![self] = Tail(stack[self])]
                              /\ UNCHANGED << qstate, jkind, jq, jj, jwk >>
                   /\ UNCHANGED << qpoll, jobs, wakeBlocked, schedule, 
                                   pthreads, nspawned, palive, busy, 
                                   busyLocked, inbox, chanOpen, pfin, thrHeld, 
                                   maxThreads, jaw, fres, fwaker, gfired, 
                                   gwaker, gthreads, gwhist, dwSt, dwW, 
                                   dblTaken, dblW1, dblW2, nextDW, ready, 
                                   cwait, cnotif, cvHeld, sdres, jpanic, sfst, 
                                   slotSt, qrSent, qrWaker, dnState, 
                                   susDropped, dnWaker, parkTok, barGen, myBar, 
                                   cdone, rwb, rneed, stres, spName, dsl, 
                                   atomic, strong, ppPending, ppClosed, 
                                   ppNotify, ppNC, ppBP, ppDepth, ppAlive, 
                                   ppHeld, inItems, inClosed, inWaker, pollFn, 
                                   chuteFn, pwTaken, nextPoll, ppItem, pjLive, 
                                   ppStage, h, dead, sti, smax, rq, sq, sj, ww, 
                                   rsq, bown, bwk, bi, bcur, bw, bsp, fj, dq, 
                                   dj, oq, oop, omode, oj, yq, yop, yclaimed, 
                                   af, wf, wop, sf, sctx, xf, cop, kj, pp, pwk, 
                                   np, nbp, nres, dp, pf, pctx, pq, pj, pd, nq >>

z_ts_chk(self) == /\ pc[self] = "z_ts_chk"
                  /\ IF rv[self] = 9
                        THEN /\ pc' = [pc EXCEPT ![self] = "ts_panic"]
                        ELSE /\ pc' = [pc EXCEPT ![self] = "ts_idle"]
                  /\ UNCHANGED << qstate, qpoll, jobs, wakeBlocked, schedule, 
                                  pthreads, nspawned, palive, busy, busyLocked, 
                                  inbox, chanOpen, pfin, thrHeld, maxThreads, 
                                  jkind, jaw, fres, fwaker, gfired, gwaker, 
                                  gthreads, gwhist, dwSt, dwW, dblTaken, dblW1, 
                                  dblW2, nextDW, ready, cwait, cnotif, cvHeld, 
                                  sdres, jpanic, sfst, slotSt, qrSent, qrWaker, 
                                  dnState, susDropped, dnWaker, parkTok, 
                                  barGen, myBar, cdone, rv, rwb, rneed, stres, 
                                  spName, dsl, atomic, strong, ppPending, 
                                  ppClosed, ppNotify, ppNC, ppBP, ppDepth, 
                                  ppAlive, ppHeld, inItems, inClosed, inWaker, 
                                  pollFn, chuteFn, pwTaken, nextPoll, ppItem, 
                                  pjLive, ppStage, h, stack, dead, sti, smax, 
                                  rq, sq, sj, ww, rsq, bown, bwk, bi, bcur, bw, 
                                  bsp, jq, jj, jwk, fj, dq, dj, oq, oop, omode, 
                                  oj, yq, yop, yclaimed, tq, top, af, wf, wop, 
                                  sf, sctx, xf, cop, kj, pp, pwk, np, nbp, 
                                  nres, dp, pf, pctx, pq, pj, pd, nq >>

ts_idle(self) == /\ pc[self] = "ts_idle"
                 /\ qstate' = [qstate EXCEPT ![tq[self]] = "Idle"]
                 /\ /\ rq' = [rq EXCEPT ![self] = tq[self]]
                    /\ stack' = [stack EXCEPT ![self] = << [ procedure |->  "Reschedule",
                                                             pc        |->  "z_ts_ret",
                                                             rq        |->  rq[self] ] >>
                                                         \o stack[self]]
                 /\ pc' = [pc EXCEPT ![self] = "rq_core"]
                 /\ UNCHANGED << qpoll, jobs, wakeBlocked, schedule, pthreads, 
                                 nspawned, palive, busy, busyLocked, inbox, 
                                 chanOpen, pfin, thrHeld, maxThreads, jkind, 
                                 jaw, fres, fwaker, gfired, gwaker, gthreads, 
                                 gwhist, dwSt, dwW, dblTaken, dblW1, dblW2, 
                                 nextDW, ready, cwait, cnotif, cvHeld, sdres, 
                                 jpanic, sfst, slotSt, qrSent, qrWaker, 
                                 dnState, susDropped, dnWaker, parkTok, barGen, 
                                 myBar, cdone, rv, rwb, rneed, stres, spName, 
                                 dsl, atomic, strong, ppPending, ppClosed, 
                                 ppNotify, ppNC, ppBP, ppDepth, ppAlive, 
                                 ppHeld, inItems, inClosed, inWaker, pollFn, 
                                 chuteFn, pwTaken, nextPoll, ppItem, pjLive, 
                                 ppStage, h, dead, sti, smax, sq, sj, ww, rsq, 
                                 bown, bwk, bi, bcur, bw, bsp, jq, jj, jwk, fj, 
                                 dq, dj, oq, oop, omode, oj, yq, yop, yclaimed, 
                                 tq, top, af, wf, wop, sf, sctx, xf, cop, kj, 
                                 pp, pwk, np, nbp, nres, dp, pf, pctx, pq, pj, 
                                 pd, nq >>

z_ts_ret(self) == /\ pc[self] = "z_ts_ret"
                  /\ rv' = [rv EXCEPT ![self] = 0]
                  /\ pc' = [pc EXCEPT ![self] = Head(stack[self]).pc]
                  /\ tq' = [tq EXCEPT ![self] = Head(stack[self]).tq]
                  /\ top' = [top EXCEPT ![self] = Head(stack[self]).top]
                  /\ stack' = [stack EXCEPT ![self] = Tail(stack[self])]
                  /\ UNCHANGED << qstate, qpoll, jobs, wakeBlocked, schedule, 
                                  pthreads, nspawned, palive, busy, busyLocked, 
                                  inbox, chanOpen, pfin, thrHeld, maxThreads, 
                                  jkind, jaw, fres, fwaker, gfired, gwaker, 
                                  gthreads, gwhist, dwSt, dwW, dblTaken, dblW1, 
                                  dblW2, nextDW, ready, cwait, cnotif, cvHeld, 
                                  sdres, jpanic, sfst, slotSt, qrSent, qrWaker, 
                                  dnState, susDropped, dnWaker, parkTok, 
                                  barGen, myBar, cdone, rwb, rneed, stres, 
                                  spName, dsl, atomic, strong, ppPending, 
                                  ppClosed, ppNotify, ppNC, ppBP, ppDepth, 
                                  ppAlive, ppHeld, inItems, inClosed, inWaker, 
                                  pollFn, chuteFn, pwTaken, nextPoll, ppItem, 
                                  pjLive, ppStage, h, dead, sti, smax, rq, sq, 
                                  sj, ww, rsq, bown, bwk, bi, bcur, bw, bsp, 
                                  jq, jj, jwk, fj, dq, dj, oq, oop, omode, oj, 
                                  yq, yop, yclaimed, af, wf, wop, sf, sctx, xf, 
                                  cop, kj, pp, pwk, np, nbp, nres, dp, pf, 
                                  pctx, pq, pj, pd, nq >>

ts_panic(self) == /\ pc[self] = "ts_panic"
                  /\ qstate' = [qstate EXCEPT ![tq[self]] = "Panicked"]
                  /\ rv' = [rv EXCEPT ![self] = 2]
                  /\ pc' = [pc EXCEPT ![self] = Head(stack[self]).pc]
                  /\ tq' = [tq EXCEPT ![self] = Head(stack[self]).tq]
                  /\ top' = [top EXCEPT ![self] = Head(stack[self]).top]
                  /\ stack' = [stack EXCEPT ![self] = Tail(stack[self])]
                  /\ UNCHANGED << qpoll, jobs, wakeBlocked, schedule, pthreads, 
                                  nspawned, palive, busy, busyLocked, inbox, 
                                  chanOpen, pfin, thrHeld, maxThreads, jkind, 
                                  jaw, fres, fwaker, gfired, gwaker, gthreads, 
                                  gwhist, dwSt, dwW, dblTaken, dblW1, dblW2, 
                                  nextDW, ready, cwait, cnotif, cvHeld, sdres, 
                                  jpanic, sfst, slotSt, qrSent, qrWaker, 
                                  dnState, susDropped, dnWaker, parkTok, 
                                  barGen, myBar, cdone, rwb, rneed, stres, 
                                  spName, dsl, atomic, strong, ppPending, 
                                  ppClosed, ppNotify, ppNC, ppBP, ppDepth, 
                                  ppAlive, ppHeld, inItems, inClosed, inWaker, 
                                  pollFn, chuteFn, pwTaken, nextPoll, ppItem, 
                                  pjLive, ppStage, h, dead, sti, smax, rq, sq, 
                                  sj, ww, rsq, bown, bwk, bi, bcur, bw, bsp, 
                                  jq, jj, jwk, fj, dq, dj, oq, oop, omode, oj, 
                                  yq, yop, yclaimed, af, wf, wop, sf, sctx, xf, 
                                  cop, kj, pp, pwk, np, nbp, nres, dp, pf, 
                                  pctx, pq, pj, pd, nq >>

TrySync(self) == ts_decide(self) \/ z_ts_chk(self) \/ ts_idle(self)
                    \/ z_ts_ret(self) \/ ts_panic(self)

z_aw_poll(self) == /\ pc[self] = "z_aw_poll"
                   /\ IF K(af[self]) = "fsync"
                         THEN /\ /\ sctx' = [sctx EXCEPT ![self] = TASK(self)]
                                 /\ sf' = [sf EXCEPT ![self] = af[self]]
                                 /\ stack' = [stack EXCEPT ![self] = << [ procedure |->  "PollSync",
                                                                          pc        |->  "z_aw_after",
                                                                          sf        |->  sf[self],
                                                                          sctx      |->  sctx[self] ] >>
                                                                      \o stack[self]]
                              /\ pc' = [pc EXCEPT ![self] = "z_ps"]
                              /\ UNCHANGED << pf, pctx, pq, pj, pd >>
                         ELSE /\ /\ pctx' = [pctx EXCEPT ![self] = TASK(self)]
                                 /\ pf' = [pf EXCEPT ![self] = af[self]]
                                 /\ stack' = [stack EXCEPT ![self] = << [ procedure |->  "PollFuture",
                                                                          pc        |->  "z_aw_after",
                                                                          pq        |->  pq[self],
                                                                          pj        |->  pj[self],
                                                                          pd        |->  pd[self],
                                                                          pf        |->  pf[self],
                                                                          pctx      |->  pctx[self] ] >>
                                                                      \o stack[self]]
                              /\ pq' = [pq EXCEPT ![self] = 0]
                              /\ pj' = [pj EXCEPT ![self] = 0]
                              /\ pd' = [pd EXCEPT ![self] = 0]
                              /\ pc' = [pc EXCEPT ![self] = "pf_decide"]
                              /\ UNCHANGED << sf, sctx >>
                   /\ UNCHANGED << qstate, qpoll, jobs, wakeBlocked, schedule, 
                                   pthreads, nspawned, palive, busy, 
                                   busyLocked, inbox, chanOpen, pfin, thrHeld, 
                                   maxThreads, jkind, jaw, fres, fwaker, 
                                   gfired, gwaker, gthreads, gwhist, dwSt, dwW, 
                                   dblTaken, dblW1, dblW2, nextDW, ready, 
                                   cwait, cnotif, cvHeld, sdres, jpanic, sfst, 
                                   slotSt, qrSent, qrWaker, dnState, 
                                   susDropped, dnWaker, parkTok, barGen, myBar, 
                                   cdone, rv, rwb, rneed, stres, spName, dsl, 
                                   atomic, strong, ppPending, ppClosed, 
                                   ppNotify, ppNC, ppBP, ppDepth, ppAlive, 
                                   ppHeld, inItems, inClosed, inWaker, pollFn, 
                                   chuteFn, pwTaken, nextPoll, ppItem, pjLive, 
                                   ppStage, h, dead, sti, smax, rq, sq, sj, ww, 
                                   rsq, bown, bwk, bi, bcur, bw, bsp, jq, jj, 
                                   jwk, fj, dq, dj, oq, oop, omode, oj, yq, 
                                   yop, yclaimed, tq, top, af, wf, wop, xf, 
                                   cop, kj, pp, pwk, np, nbp, nres, dp, nq >>

z_aw_after(self) == /\ pc[self] = "z_aw_after"
                    /\ IF rv[self] = 5
                          THEN /\ pc' = [pc EXCEPT ![self] = "aw_park"]
                               /\ UNCHANGED << h, stack, af >>
                          ELSE /\ IF rv[self] \in {0, 3, 4}
                                     THEN /\ h' = ObsResolved(h, self, af[self], rv[self])
                                     ELSE /\ TRUE
                                          /\ h' = h
                               /\ pc' = [pc EXCEPT ![self] = Head(stack[self]).pc]
                               /\ af' = [af EXCEPT ![self] = Head(stack[self]).af]
                               /\ stack' = [stack EXCEPT ![self] = Tail(stack[self])]
                    /\ UNCHANGED << qstate, qpoll, jobs, wakeBlocked, schedule, 
                                    pthreads, nspawned, palive, busy, 
                                    busyLocked, inbox, chanOpen, pfin, thrHeld, 
                                    maxThreads, jkind, jaw, fres, fwaker, 
                                    gfired, gwaker, gthreads, gwhist, dwSt, 
                                    dwW, dblTaken, dblW1, dblW2, nextDW, ready, 
                                    cwait, cnotif, cvHeld, sdres, jpanic, sfst, 
                                    slotSt, qrSent, qrWaker, dnState, 
                                    susDropped, dnWaker, parkTok, barGen, 
                                    myBar, cdone, rv, rwb, rneed, stres, 
                                    spName, dsl, atomic, strong, ppPending, 
                                    ppClosed, ppNotify, ppNC, ppBP, ppDepth, 
                                    ppAlive, ppHeld, inItems, inClosed, 
                                    inWaker, pollFn, chuteFn, pwTaken, 
                                    nextPoll, ppItem, pjLive, ppStage, dead, 
                                    sti, smax, rq, sq, sj, ww, rsq, bown, bwk, 
                                    bi, bcur, bw, bsp, jq, jj, jwk, fj, dq, dj, 
                                    oq, oop, omode, oj, yq, yop, yclaimed, tq, 
                                    top, wf, wop, sf, sctx, xf, cop, kj, pp, 
                                    pwk, np, nbp, nres, dp, pf, pctx, pq, pj, 
                                    pd, nq >>

aw_park(self) == /\ pc[self] = "aw_park"
                 /\ parkTok[self]
                 /\ parkTok' = [parkTok EXCEPT ![self] = FALSE]
                 /\ pc' = [pc EXCEPT ![self] = "z_aw_poll"]
                 /\ UNCHANGED << qstate, qpoll, jobs, wakeBlocked, schedule, 
                                 pthreads, nspawned, palive, busy, busyLocked, 
                                 inbox, chanOpen, pfin, thrHeld, maxThreads, 
                                 jkind, jaw, fres, fwaker, gfired, gwaker, 
                                 gthreads, gwhist, dwSt, dwW, dblTaken, dblW1, 
                                 dblW2, nextDW, ready, cwait, cnotif, cvHeld, 
                                 sdres, jpanic, sfst, slotSt, qrSent, qrWaker, 
                                 dnState, susDropped, dnWaker, barGen, myBar, 
                                 cdone, rv, rwb, rneed, stres, spName, dsl, 
                                 atomic, strong, ppPending, ppClosed, ppNotify, 
                                 ppNC, ppBP, ppDepth, ppAlive, ppHeld, inItems, 
                                 inClosed, inWaker, pollFn, chuteFn, pwTaken, 
                                 nextPoll, ppItem, pjLive, ppStage, h, stack, 
                                 dead, sti, smax, rq, sq, sj, ww, rsq, bown, 
                                 bwk, bi, bcur, bw, bsp, jq, jj, jwk, fj, dq, 
                                 dj, oq, oop, omode, oj, yq, yop, yclaimed, tq, 
                                 top, af, wf, wop, sf, sctx, xf, cop, kj, pp, 
                                 pwk, np, nbp, nres, dp, pf, pctx, pq, pj, pd, 
                                 nq >>

Await(self) == z_aw_poll(self) \/ z_aw_after(self) \/ aw_park(self)

fs_take(self) == /\ pc[self] = "fs_take"
                 /\ IF fres[wf[self]] = "some"
                       THEN /\ fres' = [fres EXCEPT ![wf[self]] = "taken"]
                            /\ h' = ObsResolved(h, self, wf[self], 0)
                            /\ rv' = [rv EXCEPT ![self] = 0]
                            /\ pc' = [pc EXCEPT ![self] = Head(stack[self]).pc]
                            /\ wf' = [wf EXCEPT ![self] = Head(stack[self]).wf]
                            /\ wop' = [wop EXCEPT ![self] = Head(stack[self]).wop]
                            /\ stack' = [stack EXCEPT ![self] = Tail(stack[self])]
                            /\ UNCHANGED << yq, yop, yclaimed >>
                       ELSE /\ IF fres[wf[self]] = "cancelled"
                                  THEN /\ fres' = [fres EXCEPT ![wf[self]] = "taken"]
                                       /\ h' = ObsResolved(h, self, wf[self], 4)
                                       /\ rv' = [rv EXCEPT ![self] = 4]
                                       /\ pc' = [pc EXCEPT ![self] = Head(stack[self]).pc]
                                       /\ wf' = [wf EXCEPT ![self] = Head(stack[self]).wf]
                                       /\ wop' = [wop EXCEPT ![self] = Head(stack[self]).wop]
                                       /\ stack' = [stack EXCEPT ![self] = Tail(stack[self])]
                                       /\ UNCHANGED << yq, yop, yclaimed >>
                                  ELSE /\ /\ stack' = [stack EXCEPT ![self] = << [ procedure |->  "Sync",
                                                                                   pc        |->  "z_fs_after",
                                                                                   yclaimed  |->  yclaimed[self],
                                                                                   yq        |->  yq[self],
                                                                                   yop       |->  yop[self] ] >>
                                                                               \o stack[self]]
                                          /\ yop' = [yop EXCEPT ![self] = wop[self]]
                                          /\ yq' = [yq EXCEPT ![self] = O(wf[self])]
                                       /\ yclaimed' = [yclaimed EXCEPT ![self] = FALSE]
                                       /\ pc' = [pc EXCEPT ![self] = "sy_decide"]
                                       /\ UNCHANGED << fres, rv, h, wf, wop >>
                 /\ UNCHANGED << qstate, qpoll, jobs, wakeBlocked, schedule, 
                                 pthreads, nspawned, palive, busy, busyLocked, 
                                 inbox, chanOpen, pfin, thrHeld, maxThreads, 
                                 jkind, jaw, fwaker, gfired, gwaker, gthreads, 
                                 gwhist, dwSt, dwW, dblTaken, dblW1, dblW2, 
                                 nextDW, ready, cwait, cnotif, cvHeld, sdres, 
                                 jpanic, sfst, slotSt, qrSent, qrWaker, 
                                 dnState, susDropped, dnWaker, parkTok, barGen, 
                                 myBar, cdone, rwb, rneed, stres, spName, dsl, 
                                 atomic, strong, ppPending, ppClosed, ppNotify, 
                                 ppNC, ppBP, ppDepth, ppAlive, ppHeld, inItems, 
                                 inClosed, inWaker, pollFn, chuteFn, pwTaken, 
                                 nextPoll, ppItem, pjLive, ppStage, dead, sti, 
                                 smax, rq, sq, sj, ww, rsq, bown, bwk, bi, 
                                 bcur, bw, bsp, jq, jj, jwk, fj, dq, dj, oq, 
                                 oop, omode, oj, tq, top, af, sf, sctx, xf, 
                                 cop, kj, pp, pwk, np, nbp, nres, dp, pf, pctx, 
                                 pq, pj, pd, nq >>

z_fs_after(self) == /\ pc[self] = "z_fs_after"
                    /\ IF rv[self] = 0
                          THEN /\ h' = ObsResolved(h, self, wf[self], 0)
                          ELSE /\ TRUE
                               /\ h' = h
                    /\ pc' = [pc EXCEPT ![self] = Head(stack[self]).pc]
                    /\ wf' = [wf EXCEPT ![self] = Head(stack[self]).wf]
                    /\ wop' = [wop EXCEPT ![self] = Head(stack[self]).wop]
                    /\ stack' = [stack EXCEPT ![self] = Tail(stack[self])]
                    /\ UNCHANGED << qstate, qpoll, jobs, wakeBlocked, schedule, 
                                    pthreads, nspawned, palive, busy, 
                                    busyLocked, inbox, chanOpen, pfin, thrHeld, 
                                    maxThreads, jkind, jaw, fres, fwaker, 
                                    gfired, gwaker, gthreads, gwhist, dwSt, 
                                    dwW, dblTaken, dblW1, dblW2, nextDW, ready, 
                                    cwait, cnotif, cvHeld, sdres, jpanic, sfst, 
                                    slotSt, qrSent, qrWaker, dnState, 
                                    susDropped, dnWaker, parkTok, barGen, 
                                    myBar, cdone, rv, rwb, rneed, stres, 
                                    spName, dsl, atomic, strong, ppPending, 
                                    ppClosed, ppNotify, ppNC, ppBP, ppDepth, 
                                    ppAlive, ppHeld, inItems, inClosed, 
                                    inWaker, pollFn, chuteFn, pwTaken, 
                                    nextPoll, ppItem, pjLive, ppStage, dead, 
                                    sti, smax, rq, sq, sj, ww, rsq, bown, bwk, 
                                    bi, bcur, bw, bsp, jq, jj, jwk, fj, dq, dj, 
                                    oq, oop, omode, oj, yq, yop, yclaimed, tq, 
                                    top, af, sf, sctx, xf, cop, kj, pp, pwk, 
                                    np, nbp, nres, dp, pf, pctx, pq, pj, pd, 
                                    nq >>

WaitSync(self) == fs_take(self) \/ z_fs_after(self)

z_ps(self) == /\ pc[self] = "z_ps"
              /\ IF sfst[sf[self]] = "WFQ"
                    THEN /\ /\ pctx' = [pctx EXCEPT ![self] = sctx[self]]
                            /\ pf' = [pf EXCEPT ![self] = sf[self]]
                            /\ stack' = [stack EXCEPT ![self] = << [ procedure |->  "PollFuture",
                                                                     pc        |->  "z_ps_q",
                                                                     pq        |->  pq[self],
                                                                     pj        |->  pj[self],
                                                                     pd        |->  pd[self],
                                                                     pf        |->  pf[self],
                                                                     pctx      |->  pctx[self] ] >>
                                                                 \o stack[self]]
                         /\ pq' = [pq EXCEPT ![self] = 0]
                         /\ pj' = [pj EXCEPT ![self] = 0]
                         /\ pd' = [pd EXCEPT ![self] = 0]
                         /\ pc' = [pc EXCEPT ![self] = "pf_decide"]
                         /\ UNCHANGED << gwaker, gwhist, rv, rsq, bown, bwk, 
                                         bi, bcur, bw, bsp, sf, sctx >>
                    ELSE /\ IF sfst[sf[self]] = "WFF"
                               THEN /\ IF jaw[sf[self]] > 0 /\ ~AwReady(sf[self])
                                          THEN /\ gwaker' = [gwaker EXCEPT ![AwItem(sf[self])] = sctx[self]]
                                               /\ gwhist' = [gwhist EXCEPT ![AwItem(sf[self])] = Append(gwhist[AwItem(sf[self])], sctx[self])]
                                               /\ rv' = [rv EXCEPT ![self] = 5]
                                               /\ pc' = [pc EXCEPT ![self] = Head(stack[self]).pc]
                                               /\ sf' = [sf EXCEPT ![self] = Head(stack[self]).sf]
                                               /\ sctx' = [sctx EXCEPT ![self] = Head(stack[self]).sctx]
                                               /\ stack' = [stack EXCEPT ![self] = Tail(stack[self])]
                                               /\ UNCHANGED << rsq, bown, bwk, 
                                                               bi, bcur, bw, 
                                                               bsp >>
                                          ELSE /\ /\ bown' = [bown EXCEPT ![self] = sf[self]]
                                                  /\ bwk' = [bwk EXCEPT ![self] = sctx[self]]
                                                  /\ rsq' = [rsq EXCEPT ![self] = Body(sf[self])]
                                                  /\ stack' = [stack EXCEPT ![self] = << [ procedure |->  "RunOps",
                                                                                           pc        |->  "z_ps_f",
                                                                                           bi        |->  bi[self],
                                                                                           bcur      |->  bcur[self],
                                                                                           bw        |->  bw[self],
                                                                                           bsp       |->  bsp[self],
                                                                                           rsq       |->  rsq[self],
                                                                                           bown      |->  bown[self],
                                                                                           bwk       |->  bwk[self] ] >>
                                                                                       \o stack[self]]
                                               /\ bi' = [bi EXCEPT ![self] = 0]
                                               /\ bcur' = [bcur EXCEPT ![self] = 0]
                                               /\ bw' = [bw EXCEPT ![self] = NoW]
                                               /\ bsp' = [bsp EXCEPT ![self] = << >>]
                                               /\ pc' = [pc EXCEPT ![self] = "rb_step"]
                                               /\ UNCHANGED << gwaker, gwhist, 
                                                               rv, sf, sctx >>
                               ELSE /\ IF sfst[sf[self]] = "WFS"
                                          THEN /\ pc' = [pc EXCEPT ![self] = "z_ps_s"]
                                               /\ UNCHANGED << rv, stack, sf, 
                                                               sctx >>
                                          ELSE /\ rv' = [rv EXCEPT ![self] = 4]
                                               /\ pc' = [pc EXCEPT ![self] = Head(stack[self]).pc]
                                               /\ sf' = [sf EXCEPT ![self] = Head(stack[self]).sf]
                                               /\ sctx' = [sctx EXCEPT ![self] = Head(stack[self]).sctx]
                                               /\ stack' = [stack EXCEPT ![self] = Tail(stack[self])]
                                    /\ UNCHANGED << gwaker, gwhist, rsq, bown, 
                                                    bwk, bi, bcur, bw, bsp >>
                         /\ UNCHANGED << pf, pctx, pq, pj, pd >>
              /\ UNCHANGED << qstate, qpoll, jobs, wakeBlocked, schedule, 
                              pthreads, nspawned, palive, busy, busyLocked, 
                              inbox, chanOpen, pfin, thrHeld, maxThreads, 
                              jkind, jaw, fres, fwaker, gfired, gthreads, dwSt, 
                              dwW, dblTaken, dblW1, dblW2, nextDW, ready, 
                              cwait, cnotif, cvHeld, sdres, jpanic, sfst, 
                              slotSt, qrSent, qrWaker, dnState, susDropped, 
                              dnWaker, parkTok, barGen, myBar, cdone, rwb, 
                              rneed, stres, spName, dsl, atomic, strong, 
                              ppPending, ppClosed, ppNotify, ppNC, ppBP, 
                              ppDepth, ppAlive, ppHeld, inItems, inClosed, 
                              inWaker, pollFn, chuteFn, pwTaken, nextPoll, 
                              ppItem, pjLive, ppStage, h, dead, sti, smax, rq, 
                              sq, sj, ww, jq, jj, jwk, fj, dq, dj, oq, oop, 
                              omode, oj, yq, yop, yclaimed, tq, top, af, wf, 
                              wop, xf, cop, kj, pp, pwk, np, nbp, nres, dp, nq >>

z_ps_q(self) == /\ pc[self] = "z_ps_q"
                /\ IF rv[self] \in {2, 4}
                      THEN /\ sfst' = [sfst EXCEPT ![sf[self]] = "Done"]
                           /\ dnState' = [dnState EXCEPT ![sf[self]] = "sent"]
                           /\ pc' = [pc EXCEPT ![self] = Head(stack[self]).pc]
                           /\ sf' = [sf EXCEPT ![self] = Head(stack[self]).sf]
                           /\ sctx' = [sctx EXCEPT ![self] = Head(stack[self]).sctx]
                           /\ stack' = [stack EXCEPT ![self] = Tail(stack[self])]
                           /\ UNCHANGED << qrWaker, rv, h, rsq, bown, bwk, bi, 
                                           bcur, bw, bsp >>
                      ELSE /\ IF qrSent[sf[self]]
                                 THEN /\ sfst' = [sfst EXCEPT ![sf[self]] = "WFF"]
                                      /\ h' = ObsStart(h, self, sf[self])
                                      /\ /\ bown' = [bown EXCEPT ![self] = sf[self]]
                                         /\ bwk' = [bwk EXCEPT ![self] = sctx[self]]
                                         /\ rsq' = [rsq EXCEPT ![self] = Body(sf[self])]
                                         /\ stack' = [stack EXCEPT ![self] = << [ procedure |->  "RunOps",
                                                                                  pc        |->  "z_ps_f",
                                                                                  bi        |->  bi[self],
                                                                                  bcur      |->  bcur[self],
                                                                                  bw        |->  bw[self],
                                                                                  bsp       |->  bsp[self],
                                                                                  rsq       |->  rsq[self],
                                                                                  bown      |->  bown[self],
                                                                                  bwk       |->  bwk[self] ] >>
                                                                              \o stack[self]]
                                      /\ bi' = [bi EXCEPT ![self] = 0]
                                      /\ bcur' = [bcur EXCEPT ![self] = 0]
                                      /\ bw' = [bw EXCEPT ![self] = NoW]
                                      /\ bsp' = [bsp EXCEPT ![self] = << >>]
                                      /\ pc' = [pc EXCEPT ![self] = "rb_step"]
                                      /\ UNCHANGED << qrWaker, rv, sf, sctx >>
                                 ELSE /\ qrWaker' = [qrWaker EXCEPT ![sf[self]] = sctx[self]]
                                      /\ rv' = [rv EXCEPT ![self] = 5]
                                      /\ pc' = [pc EXCEPT ![self] = Head(stack[self]).pc]
                                      /\ sf' = [sf EXCEPT ![self] = Head(stack[self]).sf]
                                      /\ sctx' = [sctx EXCEPT ![self] = Head(stack[self]).sctx]
                                      /\ stack' = [stack EXCEPT ![self] = Tail(stack[self])]
                                      /\ UNCHANGED << sfst, h, rsq, bown, bwk, 
                                                      bi, bcur, bw, bsp >>
                           /\ UNCHANGED dnState
                /\ UNCHANGED << qstate, qpoll, jobs, wakeBlocked, schedule, 
                                pthreads, nspawned, palive, busy, busyLocked, 
                                inbox, chanOpen, pfin, thrHeld, maxThreads, 
                                jkind, jaw, fres, fwaker, gfired, gwaker, 
                                gthreads, gwhist, dwSt, dwW, dblTaken, dblW1, 
                                dblW2, nextDW, ready, cwait, cnotif, cvHeld, 
                                sdres, jpanic, slotSt, qrSent, susDropped, 
                                dnWaker, parkTok, barGen, myBar, cdone, rwb, 
                                rneed, stres, spName, dsl, atomic, strong, 
                                ppPending, ppClosed, ppNotify, ppNC, ppBP, 
                                ppDepth, ppAlive, ppHeld, inItems, inClosed, 
                                inWaker, pollFn, chuteFn, pwTaken, nextPoll, 
                                ppItem, pjLive, ppStage, dead, sti, smax, rq, 
                                sq, sj, ww, jq, jj, jwk, fj, dq, dj, oq, oop, 
                                omode, oj, yq, yop, yclaimed, tq, top, af, wf, 
                                wop, xf, cop, kj, pp, pwk, np, nbp, nres, dp, 
                                pf, pctx, pq, pj, pd, nq >>

z_ps_f(self) == /\ pc[self] = "z_ps_f"
                /\ IF rv[self] = 5
                      THEN /\ pc' = [pc EXCEPT ![self] = Head(stack[self]).pc]
                           /\ sf' = [sf EXCEPT ![self] = Head(stack[self]).sf]
                           /\ sctx' = [sctx EXCEPT ![self] = Head(stack[self]).sctx]
                           /\ stack' = [stack EXCEPT ![self] = Tail(stack[self])]
                           /\ UNCHANGED << sfst, dnState, parkTok, ww >>
                      ELSE /\ IF rv[self] = 9
                                 THEN /\ sfst' = [sfst EXCEPT ![sf[self]] = "Done"]
                                      /\ dnState' = [dnState EXCEPT ![sf[self]] = "dropped"]
                                      /\ IF IsLocking(dnWaker[sf[self]])
                                            THEN /\ /\ stack' = [stack EXCEPT ![self] = << [ procedure |->  "Wake",
                                                                                             pc        |->  "z_ps_panic",
                                                                                             ww        |->  ww[self] ] >>
                                                                                         \o stack[self]]
                                                    /\ ww' = [ww EXCEPT ![self] = dnWaker[sf[self]]]
                                                 /\ pc' = [pc EXCEPT ![self] = "wk_lock"]
                                                 /\ UNCHANGED parkTok
                                            ELSE /\ parkTok' = Unpark(parkTok, TaskOf(dnWaker[sf[self]]))
                                                 /\ pc' = [pc EXCEPT ![self] = "z_ps_panic"]
                                                 /\ UNCHANGED << stack, ww >>
                                 ELSE /\ sfst' = [sfst EXCEPT ![sf[self]] = "WFS"]
                                      /\ dnState' = [dnState EXCEPT ![sf[self]] = "sent"]
                                      /\ IF IsLocking(dnWaker[sf[self]])
                                            THEN /\ /\ stack' = [stack EXCEPT ![self] = << [ procedure |->  "Wake",
                                                                                             pc        |->  "z_ps_s",
                                                                                             ww        |->  ww[self] ] >>
                                                                                         \o stack[self]]
                                                    /\ ww' = [ww EXCEPT ![self] = dnWaker[sf[self]]]
                                                 /\ pc' = [pc EXCEPT ![self] = "wk_lock"]
                                                 /\ UNCHANGED parkTok
                                            ELSE /\ parkTok' = Unpark(parkTok, TaskOf(dnWaker[sf[self]]))
                                                 /\ pc' = [pc EXCEPT ![self] = "z_ps_s"]
                                                 /\ UNCHANGED << stack, ww >>
                           /\ UNCHANGED << sf, sctx >>
                /\ UNCHANGED << qstate, qpoll, jobs, wakeBlocked, schedule, 
                                pthreads, nspawned, palive, busy, busyLocked, 
                                inbox, chanOpen, pfin, thrHeld, maxThreads, 
                                jkind, jaw, fres, fwaker, gfired, gwaker, 
                                gthreads, gwhist, dwSt, dwW, dblTaken, dblW1, 
                                dblW2, nextDW, ready, cwait, cnotif, cvHeld, 
                                sdres, jpanic, slotSt, qrSent, qrWaker, 
                                susDropped, dnWaker, barGen, myBar, cdone, rv, 
                                rwb, rneed, stres, spName, dsl, atomic, strong, 
                                ppPending, ppClosed, ppNotify, ppNC, ppBP, 
                                ppDepth, ppAlive, ppHeld, inItems, inClosed, 
                                inWaker, pollFn, chuteFn, pwTaken, nextPoll, 
                                ppItem, pjLive, ppStage, h, dead, sti, smax, 
                                rq, sq, sj, rsq, bown, bwk, bi, bcur, bw, bsp, 
                                jq, jj, jwk, fj, dq, dj, oq, oop, omode, oj, 
                                yq, yop, yclaimed, tq, top, af, wf, wop, xf, 
                                cop, kj, pp, pwk, np, nbp, nres, dp, pf, pctx, 
                                pq, pj, pd, nq >>

z_ps_s(self) == /\ pc[self] = "z_ps_s"
                /\ /\ pctx' = [pctx EXCEPT ![self] = sctx[self]]
                   /\ pf' = [pf EXCEPT ![self] = sf[self]]
                   /\ stack' = [stack EXCEPT ![self] = << [ procedure |->  "PollFuture",
                                                            pc        |->  "z_ps_s2",
                                                            pq        |->  pq[self],
                                                            pj        |->  pj[self],
                                                            pd        |->  pd[self],
                                                            pf        |->  pf[self],
                                                            pctx      |->  pctx[self] ] >>
                                                        \o stack[self]]
                /\ pq' = [pq EXCEPT ![self] = 0]
                /\ pj' = [pj EXCEPT ![self] = 0]
                /\ pd' = [pd EXCEPT ![self] = 0]
                /\ pc' = [pc EXCEPT ![self] = "pf_decide"]
                /\ UNCHANGED << qstate, qpoll, jobs, wakeBlocked, schedule, 
                                pthreads, nspawned, palive, busy, busyLocked, 
                                inbox, chanOpen, pfin, thrHeld, maxThreads, 
                                jkind, jaw, fres, fwaker, gfired, gwaker, 
                                gthreads, gwhist, dwSt, dwW, dblTaken, dblW1, 
                                dblW2, nextDW, ready, cwait, cnotif, cvHeld, 
                                sdres, jpanic, sfst, slotSt, qrSent, qrWaker, 
                                dnState, susDropped, dnWaker, parkTok, barGen, 
                                myBar, cdone, rv, rwb, rneed, stres, spName, 
                                dsl, atomic, strong, ppPending, ppClosed, 
                                ppNotify, ppNC, ppBP, ppDepth, ppAlive, ppHeld, 
                                inItems, inClosed, inWaker, pollFn, chuteFn, 
                                pwTaken, nextPoll, ppItem, pjLive, ppStage, h, 
                                dead, sti, smax, rq, sq, sj, ww, rsq, bown, 
                                bwk, bi, bcur, bw, bsp, jq, jj, jwk, fj, dq, 
                                dj, oq, oop, omode, oj, yq, yop, yclaimed, tq, 
                                top, af, wf, wop, sf, sctx, xf, cop, kj, pp, 
                                pwk, np, nbp, nres, dp, nq >>

z_ps_s2(self) == /\ pc[self] = "z_ps_s2"
                 /\ IF rv[self] = 5
                       THEN /\ pc' = [pc EXCEPT ![self] = Head(stack[self]).pc]
                            /\ sf' = [sf EXCEPT ![self] = Head(stack[self]).sf]
                            /\ sctx' = [sctx EXCEPT ![self] = Head(stack[self]).sctx]
                            /\ stack' = [stack EXCEPT ![self] = Tail(stack[self])]
                            /\ UNCHANGED << sfst, rv >>
                       ELSE /\ sfst' = [sfst EXCEPT ![sf[self]] = "Done"]
                            /\ rv' = [rv EXCEPT ![self] = 0]
                            /\ pc' = [pc EXCEPT ![self] = Head(stack[self]).pc]
                            /\ sf' = [sf EXCEPT ![self] = Head(stack[self]).sf]
                            /\ sctx' = [sctx EXCEPT ![self] = Head(stack[self]).sctx]
                            /\ stack' = [stack EXCEPT ![self] = Tail(stack[self])]
                 /\ UNCHANGED << qstate, qpoll, jobs, wakeBlocked, schedule, 
                                 pthreads, nspawned, palive, busy, busyLocked, 
                                 inbox, chanOpen, pfin, thrHeld, maxThreads, 
                                 jkind, jaw, fres, fwaker, gfired, gwaker, 
                                 gthreads, gwhist, dwSt, dwW, dblTaken, dblW1, 
                                 dblW2, nextDW, ready, cwait, cnotif, cvHeld, 
                                 sdres, jpanic, slotSt, qrSent, qrWaker, 
                                 dnState, susDropped, dnWaker, parkTok, barGen, 
                                 myBar, cdone, rwb, rneed, stres, spName, dsl, 
                                 atomic, strong, ppPending, ppClosed, ppNotify, 
                                 ppNC, ppBP, ppDepth, ppAlive, ppHeld, inItems, 
                                 inClosed, inWaker, pollFn, chuteFn, pwTaken, 
                                 nextPoll, ppItem, pjLive, ppStage, h, dead, 
                                 sti, smax, rq, sq, sj, ww, rsq, bown, bwk, bi, 
                                 bcur, bw, bsp, jq, jj, jwk, fj, dq, dj, oq, 
                                 oop, omode, oj, yq, yop, yclaimed, tq, top, 
                                 af, wf, wop, xf, cop, kj, pp, pwk, np, nbp, 
                                 nres, dp, pf, pctx, pq, pj, pd, nq >>

z_ps_panic(self) == /\ pc[self] = "z_ps_panic"
                    /\ rv' = [rv EXCEPT ![self] = 2]
                    /\ pc' = [pc EXCEPT ![self] = Head(stack[self]).pc]
                    /\ sf' = [sf EXCEPT ![self] = Head(stack[self]).sf]
                    /\ sctx' = [sctx EXCEPT ![self] = Head(stack[self]).sctx]
                    /\ stack' = [stack EXCEPT ![self] = Tail(stack[self])]
                    /\ UNCHANGED << qstate, qpoll, jobs, wakeBlocked, schedule, 
                                    pthreads, nspawned, palive, busy, 
                                    busyLocked, inbox, chanOpen, pfin, thrHeld, 
                                    maxThreads, jkind, jaw, fres, fwaker, 
                                    gfired, gwaker, gthreads, gwhist, dwSt, 
                                    dwW, dblTaken, dblW1, dblW2, nextDW, ready, 
                                    cwait, cnotif, cvHeld, sdres, jpanic, sfst, 
                                    slotSt, qrSent, qrWaker, dnState, 
                                    susDropped, dnWaker, parkTok, barGen, 
                                    myBar, cdone, rwb, rneed, stres, spName, 
                                    dsl, atomic, strong, ppPending, ppClosed, 
                                    ppNotify, ppNC, ppBP, ppDepth, ppAlive, 
                                    ppHeld, inItems, inClosed, inWaker, pollFn, 
                                    chuteFn, pwTaken, nextPoll, ppItem, pjLive, 
                                    ppStage, h, dead, sti, smax, rq, sq, sj, 
                                    ww, rsq, bown, bwk, bi, bcur, bw, bsp, jq, 
                                    jj, jwk, fj, dq, dj, oq, oop, omode, oj, 
                                    yq, yop, yclaimed, tq, top, af, wf, wop, 
                                    xf, cop, kj, pp, pwk, np, nbp, nres, dp, 
                                    pf, pctx, pq, pj, pd, nq >>

PollSync(self) == z_ps(self) \/ z_ps_q(self) \/ z_ps_f(self)
                     \/ z_ps_s(self) \/ z_ps_s2(self) \/ z_ps_panic(self)

z_df(self) == /\ pc[self] = "z_df"
              /\ IF K(xf[self]) = "suspend"
                    THEN /\ h' = (IF fres[xf[self]] = "taken" THEN ObsResume(h, self, xf[self]) ELSE ObsDropped(h, self, xf[self]))
                         /\ susDropped' = [susDropped EXCEPT ![xf[self]] = TRUE]
                         /\ IF fres[xf[self]] \in {"some", "taken"}
                               THEN /\ fres' = [fres EXCEPT ![xf[self]] = "taken"]
                                    /\ gfired' = (gfired \cup {OpTab[xf[self]].g})
                                    /\ parkTok' = Unpark(parkTok, TaskOf(gwaker[OpTab[xf[self]].g]))
                                    /\ IF IsLocking(gwaker[OpTab[xf[self]].g])
                                          THEN /\ /\ stack' = [stack EXCEPT ![self] = << [ procedure |->  "Wake",
                                                                                           pc        |->  "z_df_sus",
                                                                                           ww        |->  ww[self] ] >>
                                                                                       \o stack[self]]
                                                  /\ ww' = [ww EXCEPT ![self] = gwaker[OpTab[xf[self]].g]]
                                               /\ pc' = [pc EXCEPT ![self] = "wk_lock"]
                                          ELSE /\ pc' = [pc EXCEPT ![self] = "z_df_sus"]
                                               /\ UNCHANGED << stack, ww >>
                                    /\ UNCHANGED << rv, xf >>
                               ELSE /\ rv' = [rv EXCEPT ![self] = 0]
                                    /\ pc' = [pc EXCEPT ![self] = Head(stack[self]).pc]
                                    /\ xf' = [xf EXCEPT ![self] = Head(stack[self]).xf]
                                    /\ stack' = [stack EXCEPT ![self] = Tail(stack[self])]
                                    /\ UNCHANGED << fres, gfired, parkTok, ww >>
                         /\ UNCHANGED << sfst, dnState >>
                    ELSE /\ IF K(xf[self]) # "fsync" \/ sfst[xf[self]] = "Done"
                               THEN /\ h' = ObsDropped(h, self, xf[self])
                                    /\ rv' = [rv EXCEPT ![self] = 0]
                                    /\ pc' = [pc EXCEPT ![self] = Head(stack[self]).pc]
                                    /\ xf' = [xf EXCEPT ![self] = Head(stack[self]).xf]
                                    /\ stack' = [stack EXCEPT ![self] = Tail(stack[self])]
                                    /\ UNCHANGED << sfst, dnState, ww >>
                               ELSE /\ h' = (IF sfst[xf[self]] = "WFF" THEN ObsEnd(ObsDropped(h, self, xf[self]), self, xf[self]) ELSE ObsDropped(h, self, xf[self]))
                                    /\ sfst' = [sfst EXCEPT ![xf[self]] = "Done"]
                                    /\ IF dnState[xf[self]] = "open"
                                          THEN /\ dnState' = [dnState EXCEPT ![xf[self]] = "dropped"]
                                               /\ IF IsLocking(dnWaker[xf[self]])
                                                     THEN /\ /\ stack' = [stack EXCEPT ![self] = << [ procedure |->  "Wake",
                                                                                                      pc        |->  "z_df2",
                                                                                                      ww        |->  ww[self] ] >>
                                                                                                  \o stack[self]]
                                                             /\ ww' = [ww EXCEPT ![self] = dnWaker[xf[self]]]
                                                          /\ pc' = [pc EXCEPT ![self] = "wk_lock"]
                                                     ELSE /\ pc' = [pc EXCEPT ![self] = "z_df2"]
                                                          /\ UNCHANGED << stack, 
                                                                          ww >>
                                          ELSE /\ pc' = [pc EXCEPT ![self] = "z_df2"]
                                               /\ UNCHANGED << dnState, stack, 
                                                               ww >>
                                    /\ UNCHANGED << rv, xf >>
                         /\ UNCHANGED << fres, gfired, susDropped, parkTok >>
              /\ UNCHANGED << qstate, qpoll, jobs, wakeBlocked, schedule, 
                              pthreads, nspawned, palive, busy, busyLocked, 
                              inbox, chanOpen, pfin, thrHeld, maxThreads, 
                              jkind, jaw, fwaker, gwaker, gthreads, gwhist, 
                              dwSt, dwW, dblTaken, dblW1, dblW2, nextDW, ready, 
                              cwait, cnotif, cvHeld, sdres, jpanic, slotSt, 
                              qrSent, qrWaker, dnWaker, barGen, myBar, cdone, 
                              rwb, rneed, stres, spName, dsl, atomic, strong, 
                              ppPending, ppClosed, ppNotify, ppNC, ppBP, 
                              ppDepth, ppAlive, ppHeld, inItems, inClosed, 
                              inWaker, pollFn, chuteFn, pwTaken, nextPoll, 
                              ppItem, pjLive, ppStage, dead, sti, smax, rq, sq, 
                              sj, rsq, bown, bwk, bi, bcur, bw, bsp, jq, jj, 
                              jwk, fj, dq, dj, oq, oop, omode, oj, yq, yop, 
                              yclaimed, tq, top, af, wf, wop, sf, sctx, cop, 
                              kj, pp, pwk, np, nbp, nres, dp, pf, pctx, pq, pj, 
                              pd, nq >>

z_df2(self) == /\ pc[self] = "z_df2"
               /\ rv' = [rv EXCEPT ![self] = 0]
               /\ pc' = [pc EXCEPT ![self] = Head(stack[self]).pc]
               /\ xf' = [xf EXCEPT ![self] = Head(stack[self]).xf]
               /\ stack' = [stack EXCEPT ![self] = Tail(stack[self])]
               /\ UNCHANGED << qstate, qpoll, jobs, wakeBlocked, schedule, 
                               pthreads, nspawned, palive, busy, busyLocked, 
                               inbox, chanOpen, pfin, thrHeld, maxThreads, 
                               jkind, jaw, fres, fwaker, gfired, gwaker, 
                               gthreads, gwhist, dwSt, dwW, dblTaken, dblW1, 
                               dblW2, nextDW, ready, cwait, cnotif, cvHeld, 
                               sdres, jpanic, sfst, slotSt, qrSent, qrWaker, 
                               dnState, susDropped, dnWaker, parkTok, barGen, 
                               myBar, cdone, rwb, rneed, stres, spName, dsl, 
                               atomic, strong, ppPending, ppClosed, ppNotify, 
                               ppNC, ppBP, ppDepth, ppAlive, ppHeld, inItems, 
                               inClosed, inWaker, pollFn, chuteFn, pwTaken, 
                               nextPoll, ppItem, pjLive, ppStage, h, dead, sti, 
                               smax, rq, sq, sj, ww, rsq, bown, bwk, bi, bcur, 
                               bw, bsp, jq, jj, jwk, fj, dq, dj, oq, oop, 
                               omode, oj, yq, yop, yclaimed, tq, top, af, wf, 
                               wop, sf, sctx, cop, kj, pp, pwk, np, nbp, nres, 
                               dp, pf, pctx, pq, pj, pd, nq >>

z_df_sus(self) == /\ pc[self] = "z_df_sus"
                  /\ gwaker' = [gwaker EXCEPT ![OpTab[xf[self]].g] = NoW]
                  /\ rv' = [rv EXCEPT ![self] = 0]
                  /\ pc' = [pc EXCEPT ![self] = Head(stack[self]).pc]
                  /\ xf' = [xf EXCEPT ![self] = Head(stack[self]).xf]
                  /\ stack' = [stack EXCEPT ![self] = Tail(stack[self])]
                  /\ UNCHANGED << qstate, qpoll, jobs, wakeBlocked, schedule, 
                                  pthreads, nspawned, palive, busy, busyLocked, 
                                  inbox, chanOpen, pfin, thrHeld, maxThreads, 
                                  jkind, jaw, fres, fwaker, gfired, gthreads, 
                                  gwhist, dwSt, dwW, dblTaken, dblW1, dblW2, 
                                  nextDW, ready, cwait, cnotif, cvHeld, sdres, 
                                  jpanic, sfst, slotSt, qrSent, qrWaker, 
                                  dnState, susDropped, dnWaker, parkTok, 
                                  barGen, myBar, cdone, rwb, rneed, stres, 
                                  spName, dsl, atomic, strong, ppPending, 
                                  ppClosed, ppNotify, ppNC, ppBP, ppDepth, 
                                  ppAlive, ppHeld, inItems, inClosed, inWaker, 
                                  pollFn, chuteFn, pwTaken, nextPoll, ppItem, 
                                  pjLive, ppStage, h, dead, sti, smax, rq, sq, 
                                  sj, ww, rsq, bown, bwk, bi, bcur, bw, bsp, 
                                  jq, jj, jwk, fj, dq, dj, oq, oop, omode, oj, 
                                  yq, yop, yclaimed, tq, top, af, wf, wop, sf, 
                                  sctx, cop, kj, pp, pwk, np, nbp, nres, dp, 
                                  pf, pctx, pq, pj, pd, nq >>

DropFuture(self) == z_df(self) \/ z_df2(self) \/ z_df_sus(self)

z_pcr1(self) == /\ pc[self] = "z_pcr1"
                /\ pollFn' = [pollFn EXCEPT ![OpTab[cop[self]].p] = TRUE]
                /\ strong' = [strong EXCEPT ![O(cop[self])] = strong[O(cop[self])] + (IF K(cop[self]) = "pipe" THEN 2 ELSE 1)]
                /\ ppAlive' = [ppAlive EXCEPT ![OpTab[cop[self]].p] = (K(cop[self]) = "pipe")]
                /\ jkind' = [jkind EXCEPT ![NewPoll(OpTab[cop[self]].p)] = "fut"]
                /\ pjLive' = [pjLive EXCEPT ![NewPoll(OpTab[cop[self]].p)] = TRUE]
                /\ nextPoll' = [nextPoll EXCEPT ![OpTab[cop[self]].p] = nextPoll[OpTab[cop[self]].p] + 1]
                /\ /\ sj' = [sj EXCEPT ![self] = NewPoll(OpTab[cop[self]].p)]
                   /\ sq' = [sq EXCEPT ![self] = O(cop[self])]
                   /\ stack' = [stack EXCEPT ![self] = << [ procedure |->  "ScheduleJob",
                                                            pc        |->  "z_pcr2",
                                                            sq        |->  sq[self],
                                                            sj        |->  sj[self] ] >>
                                                        \o stack[self]]
                /\ pc' = [pc EXCEPT ![self] = "sj_push"]
                /\ UNCHANGED << qstate, qpoll, jobs, wakeBlocked, schedule, 
                                pthreads, nspawned, palive, busy, busyLocked, 
                                inbox, chanOpen, pfin, thrHeld, maxThreads, 
                                jaw, fres, fwaker, gfired, gwaker, gthreads, 
                                gwhist, dwSt, dwW, dblTaken, dblW1, dblW2, 
                                nextDW, ready, cwait, cnotif, cvHeld, sdres, 
                                jpanic, sfst, slotSt, qrSent, qrWaker, dnState, 
                                susDropped, dnWaker, parkTok, barGen, myBar, 
                                cdone, rv, rwb, rneed, stres, spName, dsl, 
                                atomic, ppPending, ppClosed, ppNotify, ppNC, 
                                ppBP, ppDepth, ppHeld, inItems, inClosed, 
                                inWaker, chuteFn, pwTaken, ppItem, ppStage, h, 
                                dead, sti, smax, rq, ww, rsq, bown, bwk, bi, 
                                bcur, bw, bsp, jq, jj, jwk, fj, dq, dj, oq, 
                                oop, omode, oj, yq, yop, yclaimed, tq, top, af, 
                                wf, wop, sf, sctx, xf, cop, kj, pp, pwk, np, 
                                nbp, nres, dp, pf, pctx, pq, pj, pd, nq >>

z_pcr2(self) == /\ pc[self] = "z_pcr2"
                /\ strong' = [strong EXCEPT ![O(cop[self])] = strong[O(cop[self])] - 1]
                /\ /\ stack' = [stack EXCEPT ![self] = << [ procedure |->  "Sync",
                                                            pc        |->  "z_pcr3",
                                                            yclaimed  |->  yclaimed[self],
                                                            yq        |->  yq[self],
                                                            yop       |->  yop[self] ] >>
                                                        \o stack[self]]
                   /\ yop' = [yop EXCEPT ![self] = cop[self]]
                   /\ yq' = [yq EXCEPT ![self] = O(cop[self])]
                /\ yclaimed' = [yclaimed EXCEPT ![self] = FALSE]
                /\ pc' = [pc EXCEPT ![self] = "sy_decide"]
                /\ UNCHANGED << qstate, qpoll, jobs, wakeBlocked, schedule, 
                                pthreads, nspawned, palive, busy, busyLocked, 
                                inbox, chanOpen, pfin, thrHeld, maxThreads, 
                                jkind, jaw, fres, fwaker, gfired, gwaker, 
                                gthreads, gwhist, dwSt, dwW, dblTaken, dblW1, 
                                dblW2, nextDW, ready, cwait, cnotif, cvHeld, 
                                sdres, jpanic, sfst, slotSt, qrSent, qrWaker, 
                                dnState, susDropped, dnWaker, parkTok, barGen, 
                                myBar, cdone, rv, rwb, rneed, stres, spName, 
                                dsl, atomic, ppPending, ppClosed, ppNotify, 
                                ppNC, ppBP, ppDepth, ppAlive, ppHeld, inItems, 
                                inClosed, inWaker, pollFn, chuteFn, pwTaken, 
                                nextPoll, ppItem, pjLive, ppStage, h, dead, 
                                sti, smax, rq, sq, sj, ww, rsq, bown, bwk, bi, 
                                bcur, bw, bsp, jq, jj, jwk, fj, dq, dj, oq, 
                                oop, omode, oj, tq, top, af, wf, wop, sf, sctx, 
                                xf, cop, kj, pp, pwk, np, nbp, nres, dp, pf, 
                                pctx, pq, pj, pd, nq >>

z_pcr3(self) == /\ pc[self] = "z_pcr3"
                /\ pc' = [pc EXCEPT ![self] = Head(stack[self]).pc]
                /\ cop' = [cop EXCEPT ![self] = Head(stack[self]).cop]
                /\ stack' = [stack EXCEPT ![self] = Tail(stack[self])]
                /\ UNCHANGED << qstate, qpoll, jobs, wakeBlocked, schedule, 
                                pthreads, nspawned, palive, busy, busyLocked, 
                                inbox, chanOpen, pfin, thrHeld, maxThreads, 
                                jkind, jaw, fres, fwaker, gfired, gwaker, 
                                gthreads, gwhist, dwSt, dwW, dblTaken, dblW1, 
                                dblW2, nextDW, ready, cwait, cnotif, cvHeld, 
                                sdres, jpanic, sfst, slotSt, qrSent, qrWaker, 
                                dnState, susDropped, dnWaker, parkTok, barGen, 
                                myBar, cdone, rv, rwb, rneed, stres, spName, 
                                dsl, atomic, strong, ppPending, ppClosed, 
                                ppNotify, ppNC, ppBP, ppDepth, ppAlive, ppHeld, 
                                inItems, inClosed, inWaker, pollFn, chuteFn, 
                                pwTaken, nextPoll, ppItem, pjLive, ppStage, h, 
                                dead, sti, smax, rq, sq, sj, ww, rsq, bown, 
                                bwk, bi, bcur, bw, bsp, jq, jj, jwk, fj, dq, 
                                dj, oq, oop, omode, oj, yq, yop, yclaimed, tq, 
                                top, af, wf, wop, sf, sctx, xf, kj, pp, pwk, 
                                np, nbp, nres, dp, pf, pctx, pq, pj, pd, nq >>

PipeCreate(self) == z_pcr1(self) \/ z_pcr2(self) \/ z_pcr3(self)

z_pp_entry(self) == /\ pc[self] = "z_pp_entry"
                    /\ IF ppStage[kj[self]] = 1
                          THEN /\ pc' = [pc EXCEPT ![self] = "pp_resumed"]
                          ELSE /\ pc' = [pc EXCEPT ![self] = "pp_fn"]
                    /\ UNCHANGED << qstate, qpoll, jobs, wakeBlocked, schedule, 
                                    pthreads, nspawned, palive, busy, 
                                    busyLocked, inbox, chanOpen, pfin, thrHeld, 
                                    maxThreads, jkind, jaw, fres, fwaker, 
                                    gfired, gwaker, gthreads, gwhist, dwSt, 
                                    dwW, dblTaken, dblW1, dblW2, nextDW, ready, 
                                    cwait, cnotif, cvHeld, sdres, jpanic, sfst, 
                                    slotSt, qrSent, qrWaker, dnState, 
                                    susDropped, dnWaker, parkTok, barGen, 
                                    myBar, cdone, rv, rwb, rneed, stres, 
                                    spName, dsl, atomic, strong, ppPending, 
                                    ppClosed, ppNotify, ppNC, ppBP, ppDepth, 
                                    ppAlive, ppHeld, inItems, inClosed, 
                                    inWaker, pollFn, chuteFn, pwTaken, 
                                    nextPoll, ppItem, pjLive, ppStage, h, 
                                    stack, dead, sti, smax, rq, sq, sj, ww, 
                                    rsq, bown, bwk, bi, bcur, bw, bsp, jq, jj, 
                                    jwk, fj, dq, dj, oq, oop, omode, oj, yq, 
                                    yop, yclaimed, tq, top, af, wf, wop, sf, 
                                    sctx, xf, cop, kj, pp, pwk, np, nbp, nres, 
                                    dp, pf, pctx, pq, pj, pd, nq >>

pp_fn(self) == /\ pc[self] = "pp_fn"
               /\ IF ~pollFn[pp[self]]
                     THEN /\ rv' = [rv EXCEPT ![self] = 0]
                          /\ pc' = [pc EXCEPT ![self] = Head(stack[self]).pc]
                          /\ kj' = [kj EXCEPT ![self] = Head(stack[self]).kj]
                          /\ pp' = [pp EXCEPT ![self] = Head(stack[self]).pp]
                          /\ pwk' = [pwk EXCEPT ![self] = Head(stack[self]).pwk]
                          /\ stack' = [stack EXCEPT ![self] = Tail(stack[self])]
                          /\ UNCHANGED ppHeld
                     ELSE /\ IF K(PipeOp(pp[self])) = "pipe_in"
                                THEN /\ pc' = [pc EXCEPT ![self] = "pi_in"]
                                     /\ UNCHANGED ppHeld
                                ELSE /\ IF ~CoreAlive(pp[self])
                                           THEN /\ pc' = [pc EXCEPT ![self] = "pp_dealloc"]
                                                /\ UNCHANGED ppHeld
                                           ELSE /\ ppHeld' = [ppHeld EXCEPT ![pp[self]] = ppHeld[pp[self]] + 1]
                                                /\ pc' = [pc EXCEPT ![self] = "pp_bp"]
                          /\ UNCHANGED << rv, stack, kj, pp, pwk >>
               /\ UNCHANGED << qstate, qpoll, jobs, wakeBlocked, schedule, 
                               pthreads, nspawned, palive, busy, busyLocked, 
                               inbox, chanOpen, pfin, thrHeld, maxThreads, 
                               jkind, jaw, fres, fwaker, gfired, gwaker, 
                               gthreads, gwhist, dwSt, dwW, dblTaken, dblW1, 
                               dblW2, nextDW, ready, cwait, cnotif, cvHeld, 
                               sdres, jpanic, sfst, slotSt, qrSent, qrWaker, 
                               dnState, susDropped, dnWaker, parkTok, barGen, 
                               myBar, cdone, rwb, rneed, stres, spName, dsl, 
                               atomic, strong, ppPending, ppClosed, ppNotify, 
                               ppNC, ppBP, ppDepth, ppAlive, inItems, inClosed, 
                               inWaker, pollFn, chuteFn, pwTaken, nextPoll, 
                               ppItem, pjLive, ppStage, h, dead, sti, smax, rq, 
                               sq, sj, ww, rsq, bown, bwk, bi, bcur, bw, bsp, 
                               jq, jj, jwk, fj, dq, dj, oq, oop, omode, oj, yq, 
                               yop, yclaimed, tq, top, af, wf, wop, sf, sctx, 
                               xf, cop, np, nbp, nres, dp, pf, pctx, pq, pj, 
                               pd, nq >>

pp_bp(self) == /\ pc[self] = "pp_bp"
               /\ IF Len(ppPending[pp[self]]) >= ppDepth[pp[self]]
                     THEN /\ ppBP' = [ppBP EXCEPT ![pp[self]] = PW(kj[self])]
                          /\ ppHeld' = [ppHeld EXCEPT ![pp[self]] = ppHeld[pp[self]] - 1]
                          /\ rv' = [rv EXCEPT ![self] = 0]
                          /\ pc' = [pc EXCEPT ![self] = Head(stack[self]).pc]
                          /\ kj' = [kj EXCEPT ![self] = Head(stack[self]).kj]
                          /\ pp' = [pp EXCEPT ![self] = Head(stack[self]).pp]
                          /\ pwk' = [pwk EXCEPT ![self] = Head(stack[self]).pwk]
                          /\ stack' = [stack EXCEPT ![self] = Tail(stack[self])]
                     ELSE /\ IF ppClosed[pp[self]]
                                THEN /\ pc' = [pc EXCEPT ![self] = "pp_closed"]
                                ELSE /\ pc' = [pc EXCEPT ![self] = "pp_clear"]
                          /\ UNCHANGED << rv, ppBP, ppHeld, stack, kj, pp, pwk >>
               /\ UNCHANGED << qstate, qpoll, jobs, wakeBlocked, schedule, 
                               pthreads, nspawned, palive, busy, busyLocked, 
                               inbox, chanOpen, pfin, thrHeld, maxThreads, 
                               jkind, jaw, fres, fwaker, gfired, gwaker, 
                               gthreads, gwhist, dwSt, dwW, dblTaken, dblW1, 
                               dblW2, nextDW, ready, cwait, cnotif, cvHeld, 
                               sdres, jpanic, sfst, slotSt, qrSent, qrWaker, 
                               dnState, susDropped, dnWaker, parkTok, barGen, 
                               myBar, cdone, rwb, rneed, stres, spName, dsl, 
                               atomic, strong, ppPending, ppClosed, ppNotify, 
                               ppNC, ppDepth, ppAlive, inItems, inClosed, 
                               inWaker, pollFn, chuteFn, pwTaken, nextPoll, 
                               ppItem, pjLive, ppStage, h, dead, sti, smax, rq, 
                               sq, sj, ww, rsq, bown, bwk, bi, bcur, bw, bsp, 
                               jq, jj, jwk, fj, dq, dj, oq, oop, omode, oj, yq, 
                               yop, yclaimed, tq, top, af, wf, wop, sf, sctx, 
                               xf, cop, np, nbp, nres, dp, pf, pctx, pq, pj, 
                               pd, nq >>

pp_clear(self) == /\ pc[self] = "pp_clear"
                  /\ IF FixD5 /\ ppClosed[pp[self]]
                        THEN /\ ppHeld' = [ppHeld EXCEPT ![pp[self]] = ppHeld[pp[self]] - 1]
                             /\ pc' = [pc EXCEPT ![self] = "pp_dealloc"]
                             /\ ppNC' = ppNC
                        ELSE /\ ppNC' = [ppNC EXCEPT ![pp[self]] = NoW]
                             /\ pc' = [pc EXCEPT ![self] = "pp_in"]
                             /\ UNCHANGED ppHeld
                  /\ UNCHANGED << qstate, qpoll, jobs, wakeBlocked, schedule, 
                                  pthreads, nspawned, palive, busy, busyLocked, 
                                  inbox, chanOpen, pfin, thrHeld, maxThreads, 
                                  jkind, jaw, fres, fwaker, gfired, gwaker, 
                                  gthreads, gwhist, dwSt, dwW, dblTaken, dblW1, 
                                  dblW2, nextDW, ready, cwait, cnotif, cvHeld, 
                                  sdres, jpanic, sfst, slotSt, qrSent, qrWaker, 
                                  dnState, susDropped, dnWaker, parkTok, 
                                  barGen, myBar, cdone, rv, rwb, rneed, stres, 
                                  spName, dsl, atomic, strong, ppPending, 
                                  ppClosed, ppNotify, ppBP, ppDepth, ppAlive, 
                                  inItems, inClosed, inWaker, pollFn, chuteFn, 
                                  pwTaken, nextPoll, ppItem, pjLive, ppStage, 
                                  h, stack, dead, sti, smax, rq, sq, sj, ww, 
                                  rsq, bown, bwk, bi, bcur, bw, bsp, jq, jj, 
                                  jwk, fj, dq, dj, oq, oop, omode, oj, yq, yop, 
                                  yclaimed, tq, top, af, wf, wop, sf, sctx, xf, 
                                  cop, kj, pp, pwk, np, nbp, nres, dp, pf, 
                                  pctx, pq, pj, pd, nq >>

pp_in(self) == /\ pc[self] = "pp_in"
               /\ IF inItems[pp[self]] # << >>
                     THEN /\ ppItem' = [ppItem EXCEPT ![kj[self]] = Head(inItems[pp[self]])]
                          /\ inItems' = [inItems EXCEPT ![pp[self]] = Tail(inItems[pp[self]])]
                          /\ pc' = [pc EXCEPT ![self] = "pp_proc"]
                          /\ h' = h
                     ELSE /\ IF inClosed[pp[self]]
                                THEN /\ h' = PFlag(h, pp[self], "in_end")
                                     /\ pc' = [pc EXCEPT ![self] = "pp_end"]
                                ELSE /\ pc' = [pc EXCEPT ![self] = "pp_in2"]
                                     /\ h' = h
                          /\ UNCHANGED << inItems, ppItem >>
               /\ UNCHANGED << qstate, qpoll, jobs, wakeBlocked, schedule, 
                               pthreads, nspawned, palive, busy, busyLocked, 
                               inbox, chanOpen, pfin, thrHeld, maxThreads, 
                               jkind, jaw, fres, fwaker, gfired, gwaker, 
                               gthreads, gwhist, dwSt, dwW, dblTaken, dblW1, 
                               dblW2, nextDW, ready, cwait, cnotif, cvHeld, 
                               sdres, jpanic, sfst, slotSt, qrSent, qrWaker, 
                               dnState, susDropped, dnWaker, parkTok, barGen, 
                               myBar, cdone, rv, rwb, rneed, stres, spName, 
                               dsl, atomic, strong, ppPending, ppClosed, 
                               ppNotify, ppNC, ppBP, ppDepth, ppAlive, ppHeld, 
                               inClosed, inWaker, pollFn, chuteFn, pwTaken, 
                               nextPoll, pjLive, ppStage, stack, dead, sti, 
                               smax, rq, sq, sj, ww, rsq, bown, bwk, bi, bcur, 
                               bw, bsp, jq, jj, jwk, fj, dq, dj, oq, oop, 
                               omode, oj, yq, yop, yclaimed, tq, top, af, wf, 
                               wop, sf, sctx, xf, cop, kj, pp, pwk, np, nbp, 
                               nres, dp, pf, pctx, pq, pj, pd, nq >>

pp_in2(self) == /\ pc[self] = "pp_in2"
                /\ inWaker' = [inWaker EXCEPT ![pp[self]] = PW(kj[self])]
                /\ IF inItems[pp[self]] # << >>
                      THEN /\ ppItem' = [ppItem EXCEPT ![kj[self]] = Head(inItems[pp[self]])]
                           /\ inItems' = [inItems EXCEPT ![pp[self]] = Tail(inItems[pp[self]])]
                           /\ pc' = [pc EXCEPT ![self] = "pp_proc"]
                           /\ h' = h
                      ELSE /\ IF inClosed[pp[self]]
                                 THEN /\ h' = PFlag(h, pp[self], "in_end")
                                      /\ pc' = [pc EXCEPT ![self] = "pp_end"]
                                 ELSE /\ pc' = [pc EXCEPT ![self] = "pp_reg"]
                                      /\ h' = h
                           /\ UNCHANGED << inItems, ppItem >>
                /\ UNCHANGED << qstate, qpoll, jobs, wakeBlocked, schedule, 
                                pthreads, nspawned, palive, busy, busyLocked, 
                                inbox, chanOpen, pfin, thrHeld, maxThreads, 
                                jkind, jaw, fres, fwaker, gfired, gwaker, 
                                gthreads, gwhist, dwSt, dwW, dblTaken, dblW1, 
                                dblW2, nextDW, ready, cwait, cnotif, cvHeld, 
                                sdres, jpanic, sfst, slotSt, qrSent, qrWaker, 
                                dnState, susDropped, dnWaker, parkTok, barGen, 
                                myBar, cdone, rv, rwb, rneed, stres, spName, 
                                dsl, atomic, strong, ppPending, ppClosed, 
                                ppNotify, ppNC, ppBP, ppDepth, ppAlive, ppHeld, 
                                inClosed, pollFn, chuteFn, pwTaken, nextPoll, 
                                pjLive, ppStage, stack, dead, sti, smax, rq, 
                                sq, sj, ww, rsq, bown, bwk, bi, bcur, bw, bsp, 
                                jq, jj, jwk, fj, dq, dj, oq, oop, omode, oj, 
                                yq, yop, yclaimed, tq, top, af, wf, wop, sf, 
                                sctx, xf, cop, kj, pp, pwk, np, nbp, nres, dp, 
                                pf, pctx, pq, pj, pd, nq >>

pp_reg(self) == /\ pc[self] = "pp_reg"
                /\ IF FixD5 /\ ppClosed[pp[self]]
                      THEN /\ ppHeld' = [ppHeld EXCEPT ![pp[self]] = ppHeld[pp[self]] - 1]
                           /\ pc' = [pc EXCEPT ![self] = "pp_dealloc"]
                           /\ UNCHANGED << rv, ppNC, stack, kj, pp, pwk >>
                      ELSE /\ ppNC' = [ppNC EXCEPT ![pp[self]] = PW(kj[self])]
                           /\ ppHeld' = [ppHeld EXCEPT ![pp[self]] = ppHeld[pp[self]] - 1]
                           /\ rv' = [rv EXCEPT ![self] = 0]
                           /\ pc' = [pc EXCEPT ![self] = Head(stack[self]).pc]
                           /\ kj' = [kj EXCEPT ![self] = Head(stack[self]).kj]
                           /\ pp' = [pp EXCEPT ![self] = Head(stack[self]).pp]
                           /\ pwk' = [pwk EXCEPT ![self] = Head(stack[self]).pwk]
                           /\ stack' = [stack EXCEPT ![self] = Tail(stack[self])]
                /\ UNCHANGED << qstate, qpoll, jobs, wakeBlocked, schedule, 
                                pthreads, nspawned, palive, busy, busyLocked, 
                                inbox, chanOpen, pfin, thrHeld, maxThreads, 
                                jkind, jaw, fres, fwaker, gfired, gwaker, 
                                gthreads, gwhist, dwSt, dwW, dblTaken, dblW1, 
                                dblW2, nextDW, ready, cwait, cnotif, cvHeld, 
                                sdres, jpanic, sfst, slotSt, qrSent, qrWaker, 
                                dnState, susDropped, dnWaker, parkTok, barGen, 
                                myBar, cdone, rwb, rneed, stres, spName, dsl, 
                                atomic, strong, ppPending, ppClosed, ppNotify, 
                                ppBP, ppDepth, ppAlive, inItems, inClosed, 
                                inWaker, pollFn, chuteFn, pwTaken, nextPoll, 
                                ppItem, pjLive, ppStage, h, dead, sti, smax, 
                                rq, sq, sj, ww, rsq, bown, bwk, bi, bcur, bw, 
                                bsp, jq, jj, jwk, fj, dq, dj, oq, oop, omode, 
                                oj, yq, yop, yclaimed, tq, top, af, wf, wop, 
                                sf, sctx, xf, cop, np, nbp, nres, dp, pf, pctx, 
                                pq, pj, pd, nq >>

pp_end(self) == /\ pc[self] = "pp_end"
                /\ ppClosed' = [ppClosed EXCEPT ![pp[self]] = TRUE]
                /\ parkTok' = Unpark(parkTok, TaskOf(ppNotify[pp[self]]))
                /\ ppNotify' = [ppNotify EXCEPT ![pp[self]] = NoW]
                /\ ppHeld' = [ppHeld EXCEPT ![pp[self]] = ppHeld[pp[self]] - 1]
                /\ pc' = [pc EXCEPT ![self] = "pp_dealloc"]
                /\ UNCHANGED << qstate, qpoll, jobs, wakeBlocked, schedule, 
                                pthreads, nspawned, palive, busy, busyLocked, 
                                inbox, chanOpen, pfin, thrHeld, maxThreads, 
                                jkind, jaw, fres, fwaker, gfired, gwaker, 
                                gthreads, gwhist, dwSt, dwW, dblTaken, dblW1, 
                                dblW2, nextDW, ready, cwait, cnotif, cvHeld, 
                                sdres, jpanic, sfst, slotSt, qrSent, qrWaker, 
                                dnState, susDropped, dnWaker, barGen, myBar, 
                                cdone, rv, rwb, rneed, stres, spName, dsl, 
                                atomic, strong, ppPending, ppNC, ppBP, ppDepth, 
                                ppAlive, inItems, inClosed, inWaker, pollFn, 
                                chuteFn, pwTaken, nextPoll, ppItem, pjLive, 
                                ppStage, h, stack, dead, sti, smax, rq, sq, sj, 
                                ww, rsq, bown, bwk, bi, bcur, bw, bsp, jq, jj, 
                                jwk, fj, dq, dj, oq, oop, omode, oj, yq, yop, 
                                yclaimed, tq, top, af, wf, wop, sf, sctx, xf, 
                                cop, kj, pp, pwk, np, nbp, nres, dp, pf, pctx, 
                                pq, pj, pd, nq >>

pp_closed(self) == /\ pc[self] = "pp_closed"
                   /\ parkTok' = Unpark(parkTok, TaskOf(ppNotify[pp[self]]))
                   /\ ppNotify' = [ppNotify EXCEPT ![pp[self]] = NoW]
                   /\ ppHeld' = [ppHeld EXCEPT ![pp[self]] = ppHeld[pp[self]] - 1]
                   /\ pc' = [pc EXCEPT ![self] = "pp_dealloc"]
                   /\ UNCHANGED << qstate, qpoll, jobs, wakeBlocked, schedule, 
                                   pthreads, nspawned, palive, busy, 
                                   busyLocked, inbox, chanOpen, pfin, thrHeld, 
                                   maxThreads, jkind, jaw, fres, fwaker, 
                                   gfired, gwaker, gthreads, gwhist, dwSt, dwW, 
                                   dblTaken, dblW1, dblW2, nextDW, ready, 
                                   cwait, cnotif, cvHeld, sdres, jpanic, sfst, 
                                   slotSt, qrSent, qrWaker, dnState, 
                                   susDropped, dnWaker, barGen, myBar, cdone, 
                                   rv, rwb, rneed, stres, spName, dsl, atomic, 
                                   strong, ppPending, ppClosed, ppNC, ppBP, 
                                   ppDepth, ppAlive, inItems, inClosed, 
                                   inWaker, pollFn, chuteFn, pwTaken, nextPoll, 
                                   ppItem, pjLive, ppStage, h, stack, dead, 
                                   sti, smax, rq, sq, sj, ww, rsq, bown, bwk, 
                                   bi, bcur, bw, bsp, jq, jj, jwk, fj, dq, dj, 
                                   oq, oop, omode, oj, yq, yop, yclaimed, tq, 
                                   top, af, wf, wop, sf, sctx, xf, cop, kj, pp, 
                                   pwk, np, nbp, nres, dp, pf, pctx, pq, pj, 
                                   pd, nq >>

pp_proc(self) == /\ pc[self] = "pp_proc"
                 /\ h' = ObsProcStart(h, self, pp[self], ppItem[kj[self]])
                 /\ pc' = [pc EXCEPT ![self] = "pp_body"]
                 /\ UNCHANGED << qstate, qpoll, jobs, wakeBlocked, schedule, 
                                 pthreads, nspawned, palive, busy, busyLocked, 
                                 inbox, chanOpen, pfin, thrHeld, maxThreads, 
                                 jkind, jaw, fres, fwaker, gfired, gwaker, 
                                 gthreads, gwhist, dwSt, dwW, dblTaken, dblW1, 
                                 dblW2, nextDW, ready, cwait, cnotif, cvHeld, 
                                 sdres, jpanic, sfst, slotSt, qrSent, qrWaker, 
                                 dnState, susDropped, dnWaker, parkTok, barGen, 
                                 myBar, cdone, rv, rwb, rneed, stres, spName, 
                                 dsl, atomic, strong, ppPending, ppClosed, 
                                 ppNotify, ppNC, ppBP, ppDepth, ppAlive, 
                                 ppHeld, inItems, inClosed, inWaker, pollFn, 
                                 chuteFn, pwTaken, nextPoll, ppItem, pjLive, 
                                 ppStage, stack, dead, sti, smax, rq, sq, sj, 
                                 ww, rsq, bown, bwk, bi, bcur, bw, bsp, jq, jj, 
                                 jwk, fj, dq, dj, oq, oop, omode, oj, yq, yop, 
                                 yclaimed, tq, top, af, wf, wop, sf, sctx, xf, 
                                 cop, kj, pp, pwk, np, nbp, nres, dp, pf, pctx, 
                                 pq, pj, pd, nq >>

pp_body(self) == /\ pc[self] = "pp_body"
                 /\ IF OpTab[PipeOp(pp[self])].g # 0 /\ OpTab[PipeOp(pp[self])].g \notin gfired
                       THEN /\ gwaker' = [gwaker EXCEPT ![OpTab[PipeOp(pp[self])].g] = pwk[self]]
                            /\ gwhist' = [gwhist EXCEPT ![OpTab[PipeOp(pp[self])].g] = Append(gwhist[OpTab[PipeOp(pp[self])].g], pwk[self])]
                            /\ ppStage' = [ppStage EXCEPT ![kj[self]] = 1]
                            /\ rv' = [rv EXCEPT ![self] = 5]
                            /\ pc' = [pc EXCEPT ![self] = Head(stack[self]).pc]
                            /\ kj' = [kj EXCEPT ![self] = Head(stack[self]).kj]
                            /\ pp' = [pp EXCEPT ![self] = Head(stack[self]).pp]
                            /\ pwk' = [pwk EXCEPT ![self] = Head(stack[self]).pwk]
                            /\ stack' = [stack EXCEPT ![self] = Tail(stack[self])]
                            /\ h' = h
                       ELSE /\ IF OpTab[PipeOp(pp[self])].g # 0
                                  THEN /\ ppStage' = [ppStage EXCEPT ![kj[self]] = 1]
                                       /\ pc' = [pc EXCEPT ![self] = "pp_resumed"]
                                       /\ h' = h
                                  ELSE /\ h' = ObsProcEnd(h, self, pp[self], ppItem[kj[self]])
                                       /\ IF K(PipeOp(pp[self])) = "pipe_in"
                                             THEN /\ pc' = [pc EXCEPT ![self] = "pi_in"]
                                             ELSE /\ pc' = [pc EXCEPT ![self] = "pp_push"]
                                       /\ UNCHANGED ppStage
                            /\ UNCHANGED << gwaker, gwhist, rv, stack, kj, pp, 
                                            pwk >>
                 /\ UNCHANGED << qstate, qpoll, jobs, wakeBlocked, schedule, 
                                 pthreads, nspawned, palive, busy, busyLocked, 
                                 inbox, chanOpen, pfin, thrHeld, maxThreads, 
                                 jkind, jaw, fres, fwaker, gfired, gthreads, 
                                 dwSt, dwW, dblTaken, dblW1, dblW2, nextDW, 
                                 ready, cwait, cnotif, cvHeld, sdres, jpanic, 
                                 sfst, slotSt, qrSent, qrWaker, dnState, 
                                 susDropped, dnWaker, parkTok, barGen, myBar, 
                                 cdone, rwb, rneed, stres, spName, dsl, atomic, 
                                 strong, ppPending, ppClosed, ppNotify, ppNC, 
                                 ppBP, ppDepth, ppAlive, ppHeld, inItems, 
                                 inClosed, inWaker, pollFn, chuteFn, pwTaken, 
                                 nextPoll, ppItem, pjLive, dead, sti, smax, rq, 
                                 sq, sj, ww, rsq, bown, bwk, bi, bcur, bw, bsp, 
                                 jq, jj, jwk, fj, dq, dj, oq, oop, omode, oj, 
                                 yq, yop, yclaimed, tq, top, af, wf, wop, sf, 
                                 sctx, xf, cop, np, nbp, nres, dp, pf, pctx, 
                                 pq, pj, pd, nq >>

pp_resumed(self) == /\ pc[self] = "pp_resumed"
                    /\ ppStage' = [ppStage EXCEPT ![kj[self]] = 0]
                    /\ h' = ObsProcEnd(h, self, pp[self], ppItem[kj[self]])
                    /\ IF K(PipeOp(pp[self])) = "pipe_in"
                          THEN /\ pc' = [pc EXCEPT ![self] = "pi_in"]
                          ELSE /\ pc' = [pc EXCEPT ![self] = "pp_push"]
                    /\ UNCHANGED << qstate, qpoll, jobs, wakeBlocked, schedule, 
                                    pthreads, nspawned, palive, busy, 
                                    busyLocked, inbox, chanOpen, pfin, thrHeld, 
                                    maxThreads, jkind, jaw, fres, fwaker, 
                                    gfired, gwaker, gthreads, gwhist, dwSt, 
                                    dwW, dblTaken, dblW1, dblW2, nextDW, ready, 
                                    cwait, cnotif, cvHeld, sdres, jpanic, sfst, 
                                    slotSt, qrSent, qrWaker, dnState, 
                                    susDropped, dnWaker, parkTok, barGen, 
                                    myBar, cdone, rv, rwb, rneed, stres, 
                                    spName, dsl, atomic, strong, ppPending, 
                                    ppClosed, ppNotify, ppNC, ppBP, ppDepth, 
                                    ppAlive, ppHeld, inItems, inClosed, 
                                    inWaker, pollFn, chuteFn, pwTaken, 
                                    nextPoll, ppItem, pjLive, stack, dead, sti, 
                                    smax, rq, sq, sj, ww, rsq, bown, bwk, bi, 
                                    bcur, bw, bsp, jq, jj, jwk, fj, dq, dj, oq, 
                                    oop, omode, oj, yq, yop, yclaimed, tq, top, 
                                    af, wf, wop, sf, sctx, xf, cop, kj, pp, 
                                    pwk, np, nbp, nres, dp, pf, pctx, pq, pj, 
                                    pd, nq >>

pp_push(self) == /\ pc[self] = "pp_push"
                 /\ ppPending' = [ppPending EXCEPT ![pp[self]] = Append(ppPending[pp[self]], 10 * ppItem[kj[self]])]
                 /\ parkTok' = Unpark(parkTok, TaskOf(ppNotify[pp[self]]))
                 /\ ppNotify' = [ppNotify EXCEPT ![pp[self]] = NoW]
                 /\ pc' = [pc EXCEPT ![self] = "pp_clear"]
                 /\ UNCHANGED << qstate, qpoll, jobs, wakeBlocked, schedule, 
                                 pthreads, nspawned, palive, busy, busyLocked, 
                                 inbox, chanOpen, pfin, thrHeld, maxThreads, 
                                 jkind, jaw, fres, fwaker, gfired, gwaker, 
                                 gthreads, gwhist, dwSt, dwW, dblTaken, dblW1, 
                                 dblW2, nextDW, ready, cwait, cnotif, cvHeld, 
                                 sdres, jpanic, sfst, slotSt, qrSent, qrWaker, 
                                 dnState, susDropped, dnWaker, barGen, myBar, 
                                 cdone, rv, rwb, rneed, stres, spName, dsl, 
                                 atomic, strong, ppClosed, ppNC, ppBP, ppDepth, 
                                 ppAlive, ppHeld, inItems, inClosed, inWaker, 
                                 pollFn, chuteFn, pwTaken, nextPoll, ppItem, 
                                 pjLive, ppStage, h, stack, dead, sti, smax, 
                                 rq, sq, sj, ww, rsq, bown, bwk, bi, bcur, bw, 
                                 bsp, jq, jj, jwk, fj, dq, dj, oq, oop, omode, 
                                 oj, yq, yop, yclaimed, tq, top, af, wf, wop, 
                                 sf, sctx, xf, cop, kj, pp, pwk, np, nbp, nres, 
                                 dp, pf, pctx, pq, pj, pd, nq >>

pi_in(self) == /\ pc[self] = "pi_in"
               /\ IF inItems[pp[self]] # << >>
                     THEN /\ ppItem' = [ppItem EXCEPT ![kj[self]] = Head(inItems[pp[self]])]
                          /\ inItems' = [inItems EXCEPT ![pp[self]] = Tail(inItems[pp[self]])]
                          /\ pc' = [pc EXCEPT ![self] = "pp_proc"]
                          /\ h' = h
                     ELSE /\ IF inClosed[pp[self]]
                                THEN /\ h' = PFlag(h, pp[self], "in_end")
                                     /\ pc' = [pc EXCEPT ![self] = "pp_dealloc"]
                                ELSE /\ pc' = [pc EXCEPT ![self] = "pi_in2"]
                                     /\ h' = h
                          /\ UNCHANGED << inItems, ppItem >>
               /\ UNCHANGED << qstate, qpoll, jobs, wakeBlocked, schedule, 
                               pthreads, nspawned, palive, busy, busyLocked, 
                               inbox, chanOpen, pfin, thrHeld, maxThreads, 
                               jkind, jaw, fres, fwaker, gfired, gwaker, 
                               gthreads, gwhist, dwSt, dwW, dblTaken, dblW1, 
                               dblW2, nextDW, ready, cwait, cnotif, cvHeld, 
                               sdres, jpanic, sfst, slotSt, qrSent, qrWaker, 
                               dnState, susDropped, dnWaker, parkTok, barGen, 
                               myBar, cdone, rv, rwb, rneed, stres, spName, 
                               dsl, atomic, strong, ppPending, ppClosed, 
                               ppNotify, ppNC, ppBP, ppDepth, ppAlive, ppHeld, 
                               inClosed, inWaker, pollFn, chuteFn, pwTaken, 
                               nextPoll, pjLive, ppStage, stack, dead, sti, 
                               smax, rq, sq, sj, ww, rsq, bown, bwk, bi, bcur, 
                               bw, bsp, jq, jj, jwk, fj, dq, dj, oq, oop, 
                               omode, oj, yq, yop, yclaimed, tq, top, af, wf, 
                               wop, sf, sctx, xf, cop, kj, pp, pwk, np, nbp, 
                               nres, dp, pf, pctx, pq, pj, pd, nq >>

pi_in2(self) == /\ pc[self] = "pi_in2"
                /\ inWaker' = [inWaker EXCEPT ![pp[self]] = PW(kj[self])]
                /\ IF inItems[pp[self]] # << >>
                      THEN /\ ppItem' = [ppItem EXCEPT ![kj[self]] = Head(inItems[pp[self]])]
                           /\ inItems' = [inItems EXCEPT ![pp[self]] = Tail(inItems[pp[self]])]
                           /\ pc' = [pc EXCEPT ![self] = "pp_proc"]
                           /\ UNCHANGED << rv, h, stack, kj, pp, pwk >>
                      ELSE /\ IF inClosed[pp[self]]
                                 THEN /\ h' = PFlag(h, pp[self], "in_end")
                                      /\ pc' = [pc EXCEPT ![self] = "pp_dealloc"]
                                      /\ UNCHANGED << rv, stack, kj, pp, pwk >>
                                 ELSE /\ rv' = [rv EXCEPT ![self] = 0]
                                      /\ pc' = [pc EXCEPT ![self] = Head(stack[self]).pc]
                                      /\ kj' = [kj EXCEPT ![self] = Head(stack[self]).kj]
                                      /\ pp' = [pp EXCEPT ![self] = Head(stack[self]).pp]
                                      /\ pwk' = [pwk EXCEPT ![self] = Head(stack[self]).pwk]
                                      /\ stack' = [stack EXCEPT ![self] = Tail(stack[self])]
                                      /\ h' = h
                           /\ UNCHANGED << inItems, ppItem >>
                /\ UNCHANGED << qstate, qpoll, jobs, wakeBlocked, schedule, 
                                pthreads, nspawned, palive, busy, busyLocked, 
                                inbox, chanOpen, pfin, thrHeld, maxThreads, 
                                jkind, jaw, fres, fwaker, gfired, gwaker, 
                                gthreads, gwhist, dwSt, dwW, dblTaken, dblW1, 
                                dblW2, nextDW, ready, cwait, cnotif, cvHeld, 
                                sdres, jpanic, sfst, slotSt, qrSent, qrWaker, 
                                dnState, susDropped, dnWaker, parkTok, barGen, 
                                myBar, cdone, rwb, rneed, stres, spName, dsl, 
                                atomic, strong, ppPending, ppClosed, ppNotify, 
                                ppNC, ppBP, ppDepth, ppAlive, ppHeld, inClosed, 
                                pollFn, chuteFn, pwTaken, nextPoll, pjLive, 
                                ppStage, dead, sti, smax, rq, sq, sj, ww, rsq, 
                                bown, bwk, bi, bcur, bw, bsp, jq, jj, jwk, fj, 
                                dq, dj, oq, oop, omode, oj, yq, yop, yclaimed, 
                                tq, top, af, wf, wop, sf, sctx, xf, cop, np, 
                                nbp, nres, dp, pf, pctx, pq, pj, pd, nq >>

pp_dealloc(self) == /\ pc[self] = "pp_dealloc"
                    /\ IF pollFn[pp[self]]
                          THEN /\ h' = PFlag(PFlag(h, pp[self], "in_dropped"), pp[self], "closure_dropped")
                          ELSE /\ TRUE
                               /\ h' = h
                    /\ pollFn' = [pollFn EXCEPT ![pp[self]] = FALSE]
                    /\ rv' = [rv EXCEPT ![self] = 0]
                    /\ pc' = [pc EXCEPT ![self] = Head(stack[self]).pc]
                    /\ kj' = [kj EXCEPT ![self] = Head(stack[self]).kj]
                    /\ pp' = [pp EXCEPT ![self] = Head(stack[self]).pp]
                    /\ pwk' = [pwk EXCEPT ![self] = Head(stack[self]).pwk]
                    /\ stack' = [stack EXCEPT ![self] = Tail(stack[self])]
                    /\ UNCHANGED << qstate, qpoll, jobs, wakeBlocked, schedule, 
                                    pthreads, nspawned, palive, busy, 
                                    busyLocked, inbox, chanOpen, pfin, thrHeld, 
                                    maxThreads, jkind, jaw, fres, fwaker, 
                                    gfired, gwaker, gthreads, gwhist, dwSt, 
                                    dwW, dblTaken, dblW1, dblW2, nextDW, ready, 
                                    cwait, cnotif, cvHeld, sdres, jpanic, sfst, 
                                    slotSt, qrSent, qrWaker, dnState, 
                                    susDropped, dnWaker, parkTok, barGen, 
                                    myBar, cdone, rwb, rneed, stres, spName, 
                                    dsl, atomic, strong, ppPending, ppClosed, 
                                    ppNotify, ppNC, ppBP, ppDepth, ppAlive, 
                                    ppHeld, inItems, inClosed, inWaker, 
                                    chuteFn, pwTaken, nextPoll, ppItem, pjLive, 
                                    ppStage, dead, sti, smax, rq, sq, sj, ww, 
                                    rsq, bown, bwk, bi, bcur, bw, bsp, jq, jj, 
                                    jwk, fj, dq, dj, oq, oop, omode, oj, yq, 
                                    yop, yclaimed, tq, top, af, wf, wop, sf, 
                                    sctx, xf, cop, np, nbp, nres, dp, pf, pctx, 
                                    pq, pj, pd, nq >>

PipePoll(self) == z_pp_entry(self) \/ pp_fn(self) \/ pp_bp(self)
                     \/ pp_clear(self) \/ pp_in(self) \/ pp_in2(self)
                     \/ pp_reg(self) \/ pp_end(self) \/ pp_closed(self)
                     \/ pp_proc(self) \/ pp_body(self) \/ pp_resumed(self)
                     \/ pp_push(self) \/ pi_in(self) \/ pi_in2(self)
                     \/ pp_dealloc(self)

cn_poll(self) == /\ pc[self] = "cn_poll"
                 /\ nbp' = [nbp EXCEPT ![self] = ppBP[np[self]]]
                 /\ ppBP' = [ppBP EXCEPT ![np[self]] = NoW]
                 /\ IF ppPending[np[self]] # << >>
                       THEN /\ nres' = [nres EXCEPT ![self] = Head(ppPending[np[self]])]
                            /\ ppPending' = [ppPending EXCEPT ![np[self]] = Tail(ppPending[np[self]])]
                            /\ rv' = [rv EXCEPT ![self] = 0]
                            /\ UNCHANGED ppNotify
                       ELSE /\ IF ppClosed[np[self]]
                                  THEN /\ nres' = [nres EXCEPT ![self] = 0 - 1]
                                       /\ rv' = [rv EXCEPT ![self] = 0]
                                       /\ UNCHANGED ppNotify
                                  ELSE /\ ppNotify' = [ppNotify EXCEPT ![np[self]] = TASK(self)]
                                       /\ rv' = [rv EXCEPT ![self] = 5]
                                       /\ nres' = nres
                            /\ UNCHANGED ppPending
                 /\ IF IsLocking(nbp'[self])
                       THEN /\ /\ stack' = [stack EXCEPT ![self] = << [ procedure |->  "Wake",
                                                                        pc        |->  "z_cn_after",
                                                                        ww        |->  ww[self] ] >>
                                                                    \o stack[self]]
                               /\ ww' = [ww EXCEPT ![self] = nbp'[self]]
                            /\ pc' = [pc EXCEPT ![self] = "wk_lock"]
                       ELSE /\ pc' = [pc EXCEPT ![self] = "z_cn_after"]
                            /\ UNCHANGED << stack, ww >>
                 /\ UNCHANGED << qstate, qpoll, jobs, wakeBlocked, schedule, 
                                 pthreads, nspawned, palive, busy, busyLocked, 
                                 inbox, chanOpen, pfin, thrHeld, maxThreads, 
                                 jkind, jaw, fres, fwaker, gfired, gwaker, 
                                 gthreads, gwhist, dwSt, dwW, dblTaken, dblW1, 
                                 dblW2, nextDW, ready, cwait, cnotif, cvHeld, 
                                 sdres, jpanic, sfst, slotSt, qrSent, qrWaker, 
                                 dnState, susDropped, dnWaker, parkTok, barGen, 
                                 myBar, cdone, rwb, rneed, stres, spName, dsl, 
                                 atomic, strong, ppClosed, ppNC, ppDepth, 
                                 ppAlive, ppHeld, inItems, inClosed, inWaker, 
                                 pollFn, chuteFn, pwTaken, nextPoll, ppItem, 
                                 pjLive, ppStage, h, dead, sti, smax, rq, sq, 
                                 sj, rsq, bown, bwk, bi, bcur, bw, bsp, jq, jj, 
                                 jwk, fj, dq, dj, oq, oop, omode, oj, yq, yop, 
                                 yclaimed, tq, top, af, wf, wop, sf, sctx, xf, 
                                 cop, kj, pp, pwk, np, dp, pf, pctx, pq, pj, 
                                 pd, nq >>

z_cn_after(self) == /\ pc[self] = "z_cn_after"
                    /\ IF rv[self] = 5
                          THEN /\ pc' = [pc EXCEPT ![self] = "cn_park"]
                               /\ UNCHANGED << h, stack, np, nbp, nres >>
                          ELSE /\ h' = (IF nres[self] < 0 THEN ObsOutEnd(h, np[self]) ELSE ObsOut(h, np[self], nres[self]))
                               /\ pc' = [pc EXCEPT ![self] = Head(stack[self]).pc]
                               /\ nbp' = [nbp EXCEPT ![self] = Head(stack[self]).nbp]
                               /\ nres' = [nres EXCEPT ![self] = Head(stack[self]).nres]
                               /\ np' = [np EXCEPT ![self] = Head(stack[self]).np]
                               /\ stack' = [stack EXCEPT ![self] = Tail(stack[self])]
                    /\ UNCHANGED << qstate, qpoll, jobs, wakeBlocked, schedule, 
                                    pthreads, nspawned, palive, busy, 
                                    busyLocked, inbox, chanOpen, pfin, thrHeld, 
                                    maxThreads, jkind, jaw, fres, fwaker, 
                                    gfired, gwaker, gthreads, gwhist, dwSt, 
                                    dwW, dblTaken, dblW1, dblW2, nextDW, ready, 
                                    cwait, cnotif, cvHeld, sdres, jpanic, sfst, 
                                    slotSt, qrSent, qrWaker, dnState, 
                                    susDropped, dnWaker, parkTok, barGen, 
                                    myBar, cdone, rv, rwb, rneed, stres, 
                                    spName, dsl, atomic, strong, ppPending, 
                                    ppClosed, ppNotify, ppNC, ppBP, ppDepth, 
                                    ppAlive, ppHeld, inItems, inClosed, 
                                    inWaker, pollFn, chuteFn, pwTaken, 
                                    nextPoll, ppItem, pjLive, ppStage, dead, 
                                    sti, smax, rq, sq, sj, ww, rsq, bown, bwk, 
                                    bi, bcur, bw, bsp, jq, jj, jwk, fj, dq, dj, 
                                    oq, oop, omode, oj, yq, yop, yclaimed, tq, 
                                    top, af, wf, wop, sf, sctx, xf, cop, kj, 
                                    pp, pwk, dp, pf, pctx, pq, pj, pd, nq >>

cn_park(self) == /\ pc[self] = "cn_park"
                 /\ parkTok[self]
                 /\ parkTok' = [parkTok EXCEPT ![self] = FALSE]
                 /\ pc' = [pc EXCEPT ![self] = "cn_poll"]
                 /\ UNCHANGED << qstate, qpoll, jobs, wakeBlocked, schedule, 
                                 pthreads, nspawned, palive, busy, busyLocked, 
                                 inbox, chanOpen, pfin, thrHeld, maxThreads, 
                                 jkind, jaw, fres, fwaker, gfired, gwaker, 
                                 gthreads, gwhist, dwSt, dwW, dblTaken, dblW1, 
                                 dblW2, nextDW, ready, cwait, cnotif, cvHeld, 
                                 sdres, jpanic, sfst, slotSt, qrSent, qrWaker, 
                                 dnState, susDropped, dnWaker, barGen, myBar, 
                                 cdone, rv, rwb, rneed, stres, spName, dsl, 
                                 atomic, strong, ppPending, ppClosed, ppNotify, 
                                 ppNC, ppBP, ppDepth, ppAlive, ppHeld, inItems, 
                                 inClosed, inWaker, pollFn, chuteFn, pwTaken, 
                                 nextPoll, ppItem, pjLive, ppStage, h, stack, 
                                 dead, sti, smax, rq, sq, sj, ww, rsq, bown, 
                                 bwk, bi, bcur, bw, bsp, jq, jj, jwk, fj, dq, 
                                 dj, oq, oop, omode, oj, yq, yop, yclaimed, tq, 
                                 top, af, wf, wop, sf, sctx, xf, cop, kj, pp, 
                                 pwk, np, nbp, nres, dp, pf, pctx, pq, pj, pd, 
                                 nq >>

PipeNext(self) == cn_poll(self) \/ z_cn_after(self) \/ cn_park(self)

ps_drop(self) == /\ pc[self] = "ps_drop"
                 /\ ppPending' = [ppPending EXCEPT ![dp[self]] = << >>]
                 /\ ppClosed' = [ppClosed EXCEPT ![dp[self]] = TRUE]
                 /\ atomic' = [atomic EXCEPT ![self] = TRUE]
                 /\ IF IsLocking(ppNC[dp[self]])
                       THEN /\ /\ stack' = [stack EXCEPT ![self] = << [ procedure |->  "Wake",
                                                                        pc        |->  "z_ps2",
                                                                        ww        |->  ww[self] ] >>
                                                                    \o stack[self]]
                               /\ ww' = [ww EXCEPT ![self] = ppNC[dp[self]]]
                            /\ pc' = [pc EXCEPT ![self] = "wk_lock"]
                       ELSE /\ pc' = [pc EXCEPT ![self] = "z_ps2"]
                            /\ UNCHANGED << stack, ww >>
                 /\ UNCHANGED << qstate, qpoll, jobs, wakeBlocked, schedule, 
                                 pthreads, nspawned, palive, busy, busyLocked, 
                                 inbox, chanOpen, pfin, thrHeld, maxThreads, 
                                 jkind, jaw, fres, fwaker, gfired, gwaker, 
                                 gthreads, gwhist, dwSt, dwW, dblTaken, dblW1, 
                                 dblW2, nextDW, ready, cwait, cnotif, cvHeld, 
                                 sdres, jpanic, sfst, slotSt, qrSent, qrWaker, 
                                 dnState, susDropped, dnWaker, parkTok, barGen, 
                                 myBar, cdone, rv, rwb, rneed, stres, spName, 
                                 dsl, strong, ppNotify, ppNC, ppBP, ppDepth, 
                                 ppAlive, ppHeld, inItems, inClosed, inWaker, 
                                 pollFn, chuteFn, pwTaken, nextPoll, ppItem, 
                                 pjLive, ppStage, h, dead, sti, smax, rq, sq, 
                                 sj, rsq, bown, bwk, bi, bcur, bw, bsp, jq, jj, 
                                 jwk, fj, dq, dj, oq, oop, omode, oj, yq, yop, 
                                 yclaimed, tq, top, af, wf, wop, sf, sctx, xf, 
                                 cop, kj, pp, pwk, np, nbp, nres, dp, pf, pctx, 
                                 pq, pj, pd, nq >>

z_ps2(self) == /\ pc[self] = "z_ps2"
               /\ ppNC' = [ppNC EXCEPT ![dp[self]] = NoW]
               /\ jkind' = [jkind EXCEPT ![ChuteJob(dp[self], "chute_release")] = "plain"]
               /\ /\ sj' = [sj EXCEPT ![self] = ChuteJob(dp[self], "chute_release")]
                  /\ sq' = [sq EXCEPT ![self] = Chute]
                  /\ stack' = [stack EXCEPT ![self] = << [ procedure |->  "ScheduleJob",
                                                           pc        |->  "z_ps3",
                                                           sq        |->  sq[self],
                                                           sj        |->  sj[self] ] >>
                                                       \o stack[self]]
               /\ pc' = [pc EXCEPT ![self] = "sj_push"]
               /\ UNCHANGED << qstate, qpoll, jobs, wakeBlocked, schedule, 
                               pthreads, nspawned, palive, busy, busyLocked, 
                               inbox, chanOpen, pfin, thrHeld, maxThreads, jaw, 
                               fres, fwaker, gfired, gwaker, gthreads, gwhist, 
                               dwSt, dwW, dblTaken, dblW1, dblW2, nextDW, 
                               ready, cwait, cnotif, cvHeld, sdres, jpanic, 
                               sfst, slotSt, qrSent, qrWaker, dnState, 
                               susDropped, dnWaker, parkTok, barGen, myBar, 
                               cdone, rv, rwb, rneed, stres, spName, dsl, 
                               atomic, strong, ppPending, ppClosed, ppNotify, 
                               ppBP, ppDepth, ppAlive, ppHeld, inItems, 
                               inClosed, inWaker, pollFn, chuteFn, pwTaken, 
                               nextPoll, ppItem, pjLive, ppStage, h, dead, sti, 
                               smax, rq, ww, rsq, bown, bwk, bi, bcur, bw, bsp, 
                               jq, jj, jwk, fj, dq, dj, oq, oop, omode, oj, yq, 
                               yop, yclaimed, tq, top, af, wf, wop, sf, sctx, 
                               xf, cop, kj, pp, pwk, np, nbp, nres, dp, pf, 
                               pctx, pq, pj, pd, nq >>

z_ps3(self) == /\ pc[self] = "z_ps3"
               /\ atomic' = [atomic EXCEPT ![self] = FALSE]
               /\ ppAlive' = [ppAlive EXCEPT ![dp[self]] = FALSE]
               /\ rv' = [rv EXCEPT ![self] = 0]
               /\ pc' = [pc EXCEPT ![self] = "z_ps_gc"]
               /\ UNCHANGED << qstate, qpoll, jobs, wakeBlocked, schedule, 
                               pthreads, nspawned, palive, busy, busyLocked, 
                               inbox, chanOpen, pfin, thrHeld, maxThreads, 
                               jkind, jaw, fres, fwaker, gfired, gwaker, 
                               gthreads, gwhist, dwSt, dwW, dblTaken, dblW1, 
                               dblW2, nextDW, ready, cwait, cnotif, cvHeld, 
                               sdres, jpanic, sfst, slotSt, qrSent, qrWaker, 
                               dnState, susDropped, dnWaker, parkTok, barGen, 
                               myBar, cdone, rwb, rneed, stres, spName, dsl, 
                               strong, ppPending, ppClosed, ppNotify, ppNC, 
                               ppBP, ppDepth, ppHeld, inItems, inClosed, 
                               inWaker, pollFn, chuteFn, pwTaken, nextPoll, 
                               ppItem, pjLive, ppStage, h, stack, dead, sti, 
                               smax, rq, sq, sj, ww, rsq, bown, bwk, bi, bcur, 
                               bw, bsp, jq, jj, jwk, fj, dq, dj, oq, oop, 
                               omode, oj, yq, yop, yclaimed, tq, top, af, wf, 
                               wop, sf, sctx, xf, cop, kj, pp, pwk, np, nbp, 
                               nres, dp, pf, pctx, pq, pj, pd, nq >>

z_ps_gc(self) == /\ pc[self] = "z_ps_gc"
                 /\ IF pollFn[dp[self]] /\ ~CtxAlive(dp[self])
                       THEN /\ pollFn' = [pollFn EXCEPT ![dp[self]] = FALSE]
                            /\ h' = PFlag(PFlag(h, dp[self], "in_dropped"), dp[self], "closure_dropped")
                       ELSE /\ TRUE
                            /\ UNCHANGED << pollFn, h >>
                 /\ pc' = [pc EXCEPT ![self] = Head(stack[self]).pc]
                 /\ dp' = [dp EXCEPT ![self] = Head(stack[self]).dp]
                 /\ stack' = [stack EXCEPT ![self] = Tail(stack[self])]
                 /\ UNCHANGED << qstate, qpoll, jobs, wakeBlocked, schedule, 
                                 pthreads, nspawned, palive, busy, busyLocked, 
                                 inbox, chanOpen, pfin, thrHeld, maxThreads, 
                                 jkind, jaw, fres, fwaker, gfired, gwaker, 
                                 gthreads, gwhist, dwSt, dwW, dblTaken, dblW1, 
                                 dblW2, nextDW, ready, cwait, cnotif, cvHeld, 
                                 sdres, jpanic, sfst, slotSt, qrSent, qrWaker, 
                                 dnState, susDropped, dnWaker, parkTok, barGen, 
                                 myBar, cdone, rv, rwb, rneed, stres, spName, 
                                 dsl, atomic, strong, ppPending, ppClosed, 
                                 ppNotify, ppNC, ppBP, ppDepth, ppAlive, 
                                 ppHeld, inItems, inClosed, inWaker, chuteFn, 
                                 pwTaken, nextPoll, ppItem, pjLive, ppStage, 
                                 dead, sti, smax, rq, sq, sj, ww, rsq, bown, 
                                 bwk, bi, bcur, bw, bsp, jq, jj, jwk, fj, dq, 
                                 dj, oq, oop, omode, oj, yq, yop, yclaimed, tq, 
                                 top, af, wf, wop, sf, sctx, xf, cop, kj, pp, 
                                 pwk, np, nbp, nres, pf, pctx, pq, pj, pd, nq >>

PipeDrop(self) == ps_drop(self) \/ z_ps2(self) \/ z_ps3(self)
                     \/ z_ps_gc(self)

ds_max(self) == /\ pc[self] = "ds_max"
                /\ TRUE
                /\ pc' = [pc EXCEPT ![self] = "ds_pop"]
                /\ UNCHANGED << qstate, qpoll, jobs, wakeBlocked, schedule, 
                                pthreads, nspawned, palive, busy, busyLocked, 
                                inbox, chanOpen, pfin, thrHeld, maxThreads, 
                                jkind, jaw, fres, fwaker, gfired, gwaker, 
                                gthreads, gwhist, dwSt, dwW, dblTaken, dblW1, 
                                dblW2, nextDW, ready, cwait, cnotif, cvHeld, 
                                sdres, jpanic, sfst, slotSt, qrSent, qrWaker, 
                                dnState, susDropped, dnWaker, parkTok, barGen, 
                                myBar, cdone, rv, rwb, rneed, stres, spName, 
                                dsl, atomic, strong, ppPending, ppClosed, 
                                ppNotify, ppNC, ppBP, ppDepth, ppAlive, ppHeld, 
                                inItems, inClosed, inWaker, pollFn, chuteFn, 
                                pwTaken, nextPoll, ppItem, pjLive, ppStage, h, 
                                stack, dead, sti, smax, rq, sq, sj, ww, rsq, 
                                bown, bwk, bi, bcur, bw, bsp, jq, jj, jwk, fj, 
                                dq, dj, oq, oop, omode, oj, yq, yop, yclaimed, 
                                tq, top, af, wf, wop, sf, sctx, xf, cop, kj, 
                                pp, pwk, np, nbp, nres, dp, pf, pctx, pq, pj, 
                                pd, nq >>

ds_pop(self) == /\ pc[self] = "ds_pop"
                /\ thrHeld = ""
                /\ dsl' = [dsl EXCEPT ![self] = [i \in 1..(IF Len(pthreads) > maxThreads THEN Len(pthreads) - maxThreads ELSE 0) |-> pthreads[Len(pthreads) + 1 - i]]]
                /\ chanOpen' = [p \in PoolSet |-> chanOpen[p] /\ ~(\E i \in (maxThreads + 1)..Len(pthreads) : pthreads[i] = p)]
                /\ pthreads' = SubSeq(pthreads, 1, IF Len(pthreads) > maxThreads THEN maxThreads ELSE Len(pthreads))
                /\ IF dsl'[self] = << >>
                      THEN /\ rv' = [rv EXCEPT ![self] = 0]
                           /\ pc' = [pc EXCEPT ![self] = Head(stack[self]).pc]
                           /\ stack' = [stack EXCEPT ![self] = Tail(stack[self])]
                      ELSE /\ pc' = [pc EXCEPT ![self] = "ds_join"]
                           /\ UNCHANGED << rv, stack >>
                /\ UNCHANGED << qstate, qpoll, jobs, wakeBlocked, schedule, 
                                nspawned, palive, busy, busyLocked, inbox, 
                                pfin, thrHeld, maxThreads, jkind, jaw, fres, 
                                fwaker, gfired, gwaker, gthreads, gwhist, dwSt, 
                                dwW, dblTaken, dblW1, dblW2, nextDW, ready, 
                                cwait, cnotif, cvHeld, sdres, jpanic, sfst, 
                                slotSt, qrSent, qrWaker, dnState, susDropped, 
                                dnWaker, parkTok, barGen, myBar, cdone, rwb, 
                                rneed, stres, spName, atomic, strong, 
                                ppPending, ppClosed, ppNotify, ppNC, ppBP, 
                                ppDepth, ppAlive, ppHeld, inItems, inClosed, 
                                inWaker, pollFn, chuteFn, pwTaken, nextPoll, 
                                ppItem, pjLive, ppStage, h, dead, sti, smax, 
                                rq, sq, sj, ww, rsq, bown, bwk, bi, bcur, bw, 
                                bsp, jq, jj, jwk, fj, dq, dj, oq, oop, omode, 
                                oj, yq, yop, yclaimed, tq, top, af, wf, wop, 
                                sf, sctx, xf, cop, kj, pp, pwk, np, nbp, nres, 
                                dp, pf, pctx, pq, pj, pd, nq >>

ds_join(self) == /\ pc[self] = "ds_join"
                 /\ pfin[Head(dsl[self])]
                 /\ h' = ObsBlocked(h, self)
                 /\ dsl' = [dsl EXCEPT ![self] = Tail(dsl[self])]
                 /\ IF Len(dsl'[self]) > 0
                       THEN /\ pc' = [pc EXCEPT ![self] = "ds_join"]
                            /\ UNCHANGED << rv, stack >>
                       ELSE /\ rv' = [rv EXCEPT ![self] = 0]
                            /\ pc' = [pc EXCEPT ![self] = Head(stack[self]).pc]
                            /\ stack' = [stack EXCEPT ![self] = Tail(stack[self])]
                 /\ UNCHANGED << qstate, qpoll, jobs, wakeBlocked, schedule, 
                                 pthreads, nspawned, palive, busy, busyLocked, 
                                 inbox, chanOpen, pfin, thrHeld, maxThreads, 
                                 jkind, jaw, fres, fwaker, gfired, gwaker, 
                                 gthreads, gwhist, dwSt, dwW, dblTaken, dblW1, 
                                 dblW2, nextDW, ready, cwait, cnotif, cvHeld, 
                                 sdres, jpanic, sfst, slotSt, qrSent, qrWaker, 
                                 dnState, susDropped, dnWaker, parkTok, barGen, 
                                 myBar, cdone, rwb, rneed, stres, spName, 
                                 atomic, strong, ppPending, ppClosed, ppNotify, 
                                 ppNC, ppBP, ppDepth, ppAlive, ppHeld, inItems, 
                                 inClosed, inWaker, pollFn, chuteFn, pwTaken, 
                                 nextPoll, ppItem, pjLive, ppStage, dead, sti, 
                                 smax, rq, sq, sj, ww, rsq, bown, bwk, bi, 
                                 bcur, bw, bsp, jq, jj, jwk, fj, dq, dj, oq, 
                                 oop, omode, oj, yq, yop, yclaimed, tq, top, 
                                 af, wf, wop, sf, sctx, xf, cop, kj, pp, pwk, 
                                 np, nbp, nres, dp, pf, pctx, pq, pj, pd, nq >>

Despawn(self) == ds_max(self) \/ ds_pop(self) \/ ds_join(self)

pf_decide(self) == /\ pc[self] = "pf_decide"
                   /\ IF fres[pf[self]] = "some"
                         THEN /\ fres' = [fres EXCEPT ![pf[self]] = "taken"]
                              /\ rv' = [rv EXCEPT ![self] = 0]
                              /\ pc' = [pc EXCEPT ![self] = Head(stack[self]).pc]
                              /\ pq' = [pq EXCEPT ![self] = Head(stack[self]).pq]
                              /\ pj' = [pj EXCEPT ![self] = Head(stack[self]).pj]
                              /\ pd' = [pd EXCEPT ![self] = Head(stack[self]).pd]
                              /\ pf' = [pf EXCEPT ![self] = Head(stack[self]).pf]
                              /\ pctx' = [pctx EXCEPT ![self] = Head(stack[self]).pctx]
                              /\ stack' = [stack EXCEPT ![self] = Tail(stack[self])]
                              /\ UNCHANGED << qstate, qpoll, fwaker >>
                         ELSE /\ IF fres[pf[self]] = "cancelled"
                                    THEN /\ fres' = [fres EXCEPT ![pf[self]] = "taken"]
                                         /\ rv' = [rv EXCEPT ![self] = 4]
                                         /\ pc' = [pc EXCEPT ![self] = Head(stack[self]).pc]
                                         /\ pq' = [pq EXCEPT ![self] = Head(stack[self]).pq]
                                         /\ pj' = [pj EXCEPT ![self] = Head(stack[self]).pj]
                                         /\ pd' = [pd EXCEPT ![self] = Head(stack[self]).pd]
                                         /\ pf' = [pf EXCEPT ![self] = Head(stack[self]).pf]
                                         /\ pctx' = [pctx EXCEPT ![self] = Head(stack[self]).pctx]
                                         /\ stack' = [stack EXCEPT ![self] = Tail(stack[self])]
                                         /\ UNCHANGED << qstate, qpoll, fwaker >>
                                    ELSE /\ IF qstate[O(pf[self])] \in {"Running", "WaitingForWake", "WaitingForUnpark", "AwokenWhileRunning"}
                                               \/ (qstate[O(pf[self])] = "WaitingForPoll" /\ qpoll[O(pf[self])] # pf[self])
                                               THEN /\ fwaker' = [fwaker EXCEPT ![pf[self]] = pctx[self]]
                                                    /\ rv' = [rv EXCEPT ![self] = 5]
                                                    /\ pc' = [pc EXCEPT ![self] = Head(stack[self]).pc]
                                                    /\ pq' = [pq EXCEPT ![self] = Head(stack[self]).pq]
                                                    /\ pj' = [pj EXCEPT ![self] = Head(stack[self]).pj]
                                                    /\ pd' = [pd EXCEPT ![self] = Head(stack[self]).pd]
                                                    /\ pf' = [pf EXCEPT ![self] = Head(stack[self]).pf]
                                                    /\ pctx' = [pctx EXCEPT ![self] = Head(stack[self]).pctx]
                                                    /\ stack' = [stack EXCEPT ![self] = Tail(stack[self])]
                                                    /\ UNCHANGED << qstate, 
                                                                    qpoll >>
                                               ELSE /\ IF qstate[O(pf[self])] = "Panicked"
                                                          THEN /\ fwaker' = [fwaker EXCEPT ![pf[self]] = pctx[self]]
                                                               /\ rv' = [rv EXCEPT ![self] = 2]
                                                               /\ pc' = [pc EXCEPT ![self] = Head(stack[self]).pc]
                                                               /\ pq' = [pq EXCEPT ![self] = Head(stack[self]).pq]
                                                               /\ pj' = [pj EXCEPT ![self] = Head(stack[self]).pj]
                                                               /\ pd' = [pd EXCEPT ![self] = Head(stack[self]).pd]
                                                               /\ pf' = [pf EXCEPT ![self] = Head(stack[self]).pf]
                                                               /\ pctx' = [pctx EXCEPT ![self] = Head(stack[self]).pctx]
                                                               /\ stack' = [stack EXCEPT ![self] = Tail(stack[self])]
                                                               /\ UNCHANGED << qstate, 
                                                                               qpoll >>
                                                          ELSE /\ pq' = [pq EXCEPT ![self] = O(pf[self])]
                                                               /\ qstate' = [qstate EXCEPT ![O(pf[self])] = "Running"]
                                                               /\ qpoll' = [qpoll EXCEPT ![O(pf[self])] = 0]
                                                               /\ pc' = [pc EXCEPT ![self] = "dq_res"]
                                                               /\ UNCHANGED << fwaker, 
                                                                               rv, 
                                                                               stack, 
                                                                               pf, 
                                                                               pctx, 
                                                                               pj, 
                                                                               pd >>
                                         /\ fres' = fres
                   /\ UNCHANGED << jobs, wakeBlocked, schedule, pthreads, 
                                   nspawned, palive, busy, busyLocked, inbox, 
                                   chanOpen, pfin, thrHeld, maxThreads, jkind, 
                                   jaw, gfired, gwaker, gthreads, gwhist, dwSt, 
                                   dwW, dblTaken, dblW1, dblW2, nextDW, ready, 
                                   cwait, cnotif, cvHeld, sdres, jpanic, sfst, 
                                   slotSt, qrSent, qrWaker, dnState, 
                                   susDropped, dnWaker, parkTok, barGen, myBar, 
                                   cdone, rwb, rneed, stres, spName, dsl, 
                                   atomic, strong, ppPending, ppClosed, 
                                   ppNotify, ppNC, ppBP, ppDepth, ppAlive, 
                                   ppHeld, inItems, inClosed, inWaker, pollFn, 
                                   chuteFn, pwTaken, nextPoll, ppItem, pjLive, 
                                   ppStage, h, dead, sti, smax, rq, sq, sj, ww, 
                                   rsq, bown, bwk, bi, bcur, bw, bsp, jq, jj, 
                                   jwk, fj, dq, dj, oq, oop, omode, oj, yq, 
                                   yop, yclaimed, tq, top, af, wf, wop, sf, 
                                   sctx, xf, cop, kj, pp, pwk, np, nbp, nres, 
                                   dp, nq >>

dq_res(self) == /\ pc[self] = "dq_res"
                /\ IF fres[pf[self]] = "some"
                      THEN /\ fres' = [fres EXCEPT ![pf[self]] = "taken"]
                           /\ rv' = [rv EXCEPT ![self] = 0]
                           /\ pc' = [pc EXCEPT ![self] = "dq_idle"]
                      ELSE /\ IF fres[pf[self]] = "cancelled"
                                 THEN /\ fres' = [fres EXCEPT ![pf[self]] = "taken"]
                                      /\ rv' = [rv EXCEPT ![self] = 4]
                                      /\ pc' = [pc EXCEPT ![self] = "dq_idle"]
                                 ELSE /\ pc' = [pc EXCEPT ![self] = "dq_deq"]
                                      /\ UNCHANGED << fres, rv >>
                /\ UNCHANGED << qstate, qpoll, jobs, wakeBlocked, schedule, 
                                pthreads, nspawned, palive, busy, busyLocked, 
                                inbox, chanOpen, pfin, thrHeld, maxThreads, 
                                jkind, jaw, fwaker, gfired, gwaker, gthreads, 
                                gwhist, dwSt, dwW, dblTaken, dblW1, dblW2, 
                                nextDW, ready, cwait, cnotif, cvHeld, sdres, 
                                jpanic, sfst, slotSt, qrSent, qrWaker, dnState, 
                                susDropped, dnWaker, parkTok, barGen, myBar, 
                                cdone, rwb, rneed, stres, spName, dsl, atomic, 
                                strong, ppPending, ppClosed, ppNotify, ppNC, 
                                ppBP, ppDepth, ppAlive, ppHeld, inItems, 
                                inClosed, inWaker, pollFn, chuteFn, pwTaken, 
                                nextPoll, ppItem, pjLive, ppStage, h, stack, 
                                dead, sti, smax, rq, sq, sj, ww, rsq, bown, 
                                bwk, bi, bcur, bw, bsp, jq, jj, jwk, fj, dq, 
                                dj, oq, oop, omode, oj, yq, yop, yclaimed, tq, 
                                top, af, wf, wop, sf, sctx, xf, cop, kj, pp, 
                                pwk, np, nbp, nres, dp, pf, pctx, pq, pj, pd, 
                                nq >>

dq_deq(self) == /\ pc[self] = "dq_deq"
                /\ IF qstate[pq[self]] \in Waiting \/ jobs[pq[self]] = << >>
                      THEN /\ pc' = [pc EXCEPT ![self] = "dq_empty_w"]
                           /\ UNCHANGED << jobs, nextDW, stack, jq, jj, jwk, 
                                           pj, pd >>
                      ELSE /\ pj' = [pj EXCEPT ![self] = Head(jobs[pq[self]])]
                           /\ jobs' = [jobs EXCEPT ![pq[self]] = Tail(jobs[pq[self]])]
                           /\ pd' = [pd EXCEPT ![self] = nextDW]
                           /\ nextDW' = nextDW + 1
                           /\ /\ jj' = [jj EXCEPT ![self] = pj'[self]]
                              /\ jq' = [jq EXCEPT ![self] = pq[self]]
                              /\ jwk' = [jwk EXCEPT ![self] = DW(pd'[self])]
                              /\ stack' = [stack EXCEPT ![self] = << [ procedure |->  "RunJob",
                                                                       pc        |->  "z_dq_after",
                                                                       jq        |->  jq[self],
                                                                       jj        |->  jj[self],
                                                                       jwk       |->  jwk[self] ] >>
                                                                   \o stack[self]]
                           /\ pc' = [pc EXCEPT ![self] = "z_rj"]
                /\ UNCHANGED << qstate, qpoll, wakeBlocked, schedule, pthreads, 
                                nspawned, palive, busy, busyLocked, inbox, 
                                chanOpen, pfin, thrHeld, maxThreads, jkind, 
                                jaw, fres, fwaker, gfired, gwaker, gthreads, 
                                gwhist, dwSt, dwW, dblTaken, dblW1, dblW2, 
                                ready, cwait, cnotif, cvHeld, sdres, jpanic, 
                                sfst, slotSt, qrSent, qrWaker, dnState, 
                                susDropped, dnWaker, parkTok, barGen, myBar, 
                                cdone, rv, rwb, rneed, stres, spName, dsl, 
                                atomic, strong, ppPending, ppClosed, ppNotify, 
                                ppNC, ppBP, ppDepth, ppAlive, ppHeld, inItems, 
                                inClosed, inWaker, pollFn, chuteFn, pwTaken, 
                                nextPoll, ppItem, pjLive, ppStage, h, dead, 
                                sti, smax, rq, sq, sj, ww, rsq, bown, bwk, bi, 
                                bcur, bw, bsp, fj, dq, dj, oq, oop, omode, oj, 
                                yq, yop, yclaimed, tq, top, af, wf, wop, sf, 
                                sctx, xf, cop, kj, pp, pwk, np, nbp, nres, dp, 
                                pf, pctx, pq, nq >>

z_dq_after(self) == /\ pc[self] = "z_dq_after"
                    /\ IF rv[self] = 5
                          THEN /\ pc' = [pc EXCEPT ![self] = "dq_requeue"]
                               /\ UNCHANGED << stack, fj >>
                          ELSE /\ IF rv[self] = 9
                                     THEN /\ IF NeedsFinish(pj[self])
                                                THEN /\ /\ fj' = [fj EXCEPT ![self] = pj[self]]
                                                        /\ stack' = [stack EXCEPT ![self] = << [ procedure |->  "FinishJob",
                                                                                                 pc        |->  "dq_panic",
                                                                                                 fj        |->  fj[self] ] >>
                                                                                             \o stack[self]]
                                                     /\ pc' = [pc EXCEPT ![self] = "fj_lock"]
                                                ELSE /\ pc' = [pc EXCEPT ![self] = "dq_panic"]
                                                     /\ UNCHANGED << stack, fj >>
                                     ELSE /\ IF NeedsFinish(pj[self])
                                                THEN /\ /\ fj' = [fj EXCEPT ![self] = pj[self]]
                                                        /\ stack' = [stack EXCEPT ![self] = << [ procedure |->  "FinishJob",
                                                                                                 pc        |->  "dq_res",
                                                                                                 fj        |->  fj[self] ] >>
                                                                                             \o stack[self]]
                                                     /\ pc' = [pc EXCEPT ![self] = "fj_lock"]
                                                ELSE /\ pc' = [pc EXCEPT ![self] = "dq_res"]
                                                     /\ UNCHANGED << stack, fj >>
                    /\ UNCHANGED << qstate, qpoll, jobs, wakeBlocked, schedule, 
                                    pthreads, nspawned, palive, busy, 
                                    busyLocked, inbox, chanOpen, pfin, thrHeld, 
                                    maxThreads, jkind, jaw, fres, fwaker, 
                                    gfired, gwaker, gthreads, gwhist, dwSt, 
                                    dwW, dblTaken, dblW1, dblW2, nextDW, ready, 
                                    cwait, cnotif, cvHeld, sdres, jpanic, sfst, 
                                    slotSt, qrSent, qrWaker, dnState, 
                                    susDropped, dnWaker, parkTok, barGen, 
                                    myBar, cdone, rv, rwb, rneed, stres, 
                                    spName, dsl, atomic, strong, ppPending, 
                                    ppClosed, ppNotify, ppNC, ppBP, ppDepth, 
                                    ppAlive, ppHeld, inItems, inClosed, 
                                    inWaker, pollFn, chuteFn, pwTaken, 
                                    nextPoll, ppItem, pjLive, ppStage, h, dead, 
                                    sti, smax, rq, sq, sj, ww, rsq, bown, bwk, 
                                    bi, bcur, bw, bsp, jq, jj, jwk, dq, dj, oq, 
                                    oop, omode, oj, yq, yop, yclaimed, tq, top, 
                                    af, wf, wop, sf, sctx, xf, cop, kj, pp, 
                                    pwk, np, nbp, nres, dp, pf, pctx, pq, pj, 
                                    pd, nq >>

dq_requeue(self) == /\ pc[self] = "dq_requeue"
                    /\ jobs' = [jobs EXCEPT ![pq[self]] = << pj[self] >> \o jobs[pq[self]]]
                    /\ pc' = [pc EXCEPT ![self] = "dq_res2"]
                    /\ UNCHANGED << qstate, qpoll, wakeBlocked, schedule, 
                                    pthreads, nspawned, palive, busy, 
                                    busyLocked, inbox, chanOpen, pfin, thrHeld, 
                                    maxThreads, jkind, jaw, fres, fwaker, 
                                    gfired, gwaker, gthreads, gwhist, dwSt, 
                                    dwW, dblTaken, dblW1, dblW2, nextDW, ready, 
                                    cwait, cnotif, cvHeld, sdres, jpanic, sfst, 
                                    slotSt, qrSent, qrWaker, dnState, 
                                    susDropped, dnWaker, parkTok, barGen, 
                                    myBar, cdone, rv, rwb, rneed, stres, 
                                    spName, dsl, atomic, strong, ppPending, 
                                    ppClosed, ppNotify, ppNC, ppBP, ppDepth, 
                                    ppAlive, ppHeld, inItems, inClosed, 
                                    inWaker, pollFn, chuteFn, pwTaken, 
                                    nextPoll, ppItem, pjLive, ppStage, h, 
                                    stack, dead, sti, smax, rq, sq, sj, ww, 
                                    rsq, bown, bwk, bi, bcur, bw, bsp, jq, jj, 
                                    jwk, fj, dq, dj, oq, oop, omode, oj, yq, 
                                    yop, yclaimed, tq, top, af, wf, wop, sf, 
                                    sctx, xf, cop, kj, pp, pwk, np, nbp, nres, 
                                    dp, pf, pctx, pq, pj, pd, nq >>

dq_res2(self) == /\ pc[self] = "dq_res2"
                 /\ IF fres[pf[self]] = "some"
                       THEN /\ fres' = [fres EXCEPT ![pf[self]] = "taken"]
                            /\ rv' = [rv EXCEPT ![self] = 0]
                            /\ pc' = [pc EXCEPT ![self] = "dq_waitwake"]
                       ELSE /\ IF fres[pf[self]] = "cancelled"
                                  THEN /\ fres' = [fres EXCEPT ![pf[self]] = "taken"]
                                       /\ rv' = [rv EXCEPT ![self] = 4]
                                       /\ pc' = [pc EXCEPT ![self] = "dq_waitwake"]
                                  ELSE /\ pc' = [pc EXCEPT ![self] = "dq_setwaker"]
                                       /\ UNCHANGED << fres, rv >>
                 /\ UNCHANGED << qstate, qpoll, jobs, wakeBlocked, schedule, 
                                 pthreads, nspawned, palive, busy, busyLocked, 
                                 inbox, chanOpen, pfin, thrHeld, maxThreads, 
                                 jkind, jaw, fwaker, gfired, gwaker, gthreads, 
                                 gwhist, dwSt, dwW, dblTaken, dblW1, dblW2, 
                                 nextDW, ready, cwait, cnotif, cvHeld, sdres, 
                                 jpanic, sfst, slotSt, qrSent, qrWaker, 
                                 dnState, susDropped, dnWaker, parkTok, barGen, 
                                 myBar, cdone, rwb, rneed, stres, spName, dsl, 
                                 atomic, strong, ppPending, ppClosed, ppNotify, 
                                 ppNC, ppBP, ppDepth, ppAlive, ppHeld, inItems, 
                                 inClosed, inWaker, pollFn, chuteFn, pwTaken, 
                                 nextPoll, ppItem, pjLive, ppStage, h, stack, 
                                 dead, sti, smax, rq, sq, sj, ww, rsq, bown, 
                                 bwk, bi, bcur, bw, bsp, jq, jj, jwk, fj, dq, 
                                 dj, oq, oop, omode, oj, yq, yop, yclaimed, tq, 
                                 top, af, wf, wop, sf, sctx, xf, cop, kj, pp, 
                                 pwk, np, nbp, nres, dp, pf, pctx, pq, pj, pd, 
                                 nq >>

dq_waitwake(self) == /\ pc[self] = "dq_waitwake"
                     /\ qstate' = [qstate EXCEPT ![pq[self]] = "WaitingForWake"]
                     /\ pc' = [pc EXCEPT ![self] = "dq_ww1"]
                     /\ UNCHANGED << qpoll, jobs, wakeBlocked, schedule, 
                                     pthreads, nspawned, palive, busy, 
                                     busyLocked, inbox, chanOpen, pfin, 
                                     thrHeld, maxThreads, jkind, jaw, fres, 
                                     fwaker, gfired, gwaker, gthreads, gwhist, 
                                     dwSt, dwW, dblTaken, dblW1, dblW2, nextDW, 
                                     ready, cwait, cnotif, cvHeld, sdres, 
                                     jpanic, sfst, slotSt, qrSent, qrWaker, 
                                     dnState, susDropped, dnWaker, parkTok, 
                                     barGen, myBar, cdone, rv, rwb, rneed, 
                                     stres, spName, dsl, atomic, strong, 
                                     ppPending, ppClosed, ppNotify, ppNC, ppBP, 
                                     ppDepth, ppAlive, ppHeld, inItems, 
                                     inClosed, inWaker, pollFn, chuteFn, 
                                     pwTaken, nextPoll, ppItem, pjLive, 
                                     ppStage, h, stack, dead, sti, smax, rq, 
                                     sq, sj, ww, rsq, bown, bwk, bi, bcur, bw, 
                                     bsp, jq, jj, jwk, fj, dq, dj, oq, oop, 
                                     omode, oj, yq, yop, yclaimed, tq, top, af, 
                                     wf, wop, sf, sctx, xf, cop, kj, pp, pwk, 
                                     np, nbp, nres, dp, pf, pctx, pq, pj, pd, 
                                     nq >>

dq_ww1(self) == /\ pc[self] = "dq_ww1"
                /\ IF dwSt[pd[self]] = "Woken"
                      THEN /\ /\ stack' = [stack EXCEPT ![self] = << [ procedure |->  "Wake",
                                                                       pc        |->  "z_dq_ready",
                                                                       ww        |->  ww[self] ] >>
                                                                   \o stack[self]]
                              /\ ww' = [ww EXCEPT ![self] = WQ(pq[self])]
                           /\ pc' = [pc EXCEPT ![self] = "wk_lock"]
                           /\ UNCHANGED << dwSt, dwW >>
                      ELSE /\ dwSt' = [dwSt EXCEPT ![pd[self]] = "Will"]
                           /\ dwW' = [dwW EXCEPT ![pd[self]] = WQ(pq[self])]
                           /\ pc' = [pc EXCEPT ![self] = "z_dq_ready"]
                           /\ UNCHANGED << stack, ww >>
                /\ UNCHANGED << qstate, qpoll, jobs, wakeBlocked, schedule, 
                                pthreads, nspawned, palive, busy, busyLocked, 
                                inbox, chanOpen, pfin, thrHeld, maxThreads, 
                                jkind, jaw, fres, fwaker, gfired, gwaker, 
                                gthreads, gwhist, dblTaken, dblW1, dblW2, 
                                nextDW, ready, cwait, cnotif, cvHeld, sdres, 
                                jpanic, sfst, slotSt, qrSent, qrWaker, dnState, 
                                susDropped, dnWaker, parkTok, barGen, myBar, 
                                cdone, rv, rwb, rneed, stres, spName, dsl, 
                                atomic, strong, ppPending, ppClosed, ppNotify, 
                                ppNC, ppBP, ppDepth, ppAlive, ppHeld, inItems, 
                                inClosed, inWaker, pollFn, chuteFn, pwTaken, 
                                nextPoll, ppItem, pjLive, ppStage, h, dead, 
                                sti, smax, rq, sq, sj, rsq, bown, bwk, bi, 
                                bcur, bw, bsp, jq, jj, jwk, fj, dq, dj, oq, 
                                oop, omode, oj, yq, yop, yclaimed, tq, top, af, 
                                wf, wop, sf, sctx, xf, cop, kj, pp, pwk, np, 
                                nbp, nres, dp, pf, pctx, pq, pj, pd, nq >>

z_dq_ready(self) == /\ pc[self] = "z_dq_ready"
                    /\ pc' = [pc EXCEPT ![self] = Head(stack[self]).pc]
                    /\ pq' = [pq EXCEPT ![self] = Head(stack[self]).pq]
                    /\ pj' = [pj EXCEPT ![self] = Head(stack[self]).pj]
                    /\ pd' = [pd EXCEPT ![self] = Head(stack[self]).pd]
                    /\ pf' = [pf EXCEPT ![self] = Head(stack[self]).pf]
                    /\ pctx' = [pctx EXCEPT ![self] = Head(stack[self]).pctx]
                    /\ stack' = [stack EXCEPT ![self] = Tail(stack[self])]
                    /\ UNCHANGED << qstate, qpoll, jobs, wakeBlocked, schedule, 
                                    pthreads, nspawned, palive, busy, 
                                    busyLocked, inbox, chanOpen, pfin, thrHeld, 
                                    maxThreads, jkind, jaw, fres, fwaker, 
                                    gfired, gwaker, gthreads, gwhist, dwSt, 
                                    dwW, dblTaken, dblW1, dblW2, nextDW, ready, 
                                    cwait, cnotif, cvHeld, sdres, jpanic, sfst, 
                                    slotSt, qrSent, qrWaker, dnState, 
                                    susDropped, dnWaker, parkTok, barGen, 
                                    myBar, cdone, rv, rwb, rneed, stres, 
                                    spName, dsl, atomic, strong, ppPending, 
                                    ppClosed, ppNotify, ppNC, ppBP, ppDepth, 
                                    ppAlive, ppHeld, inItems, inClosed, 
                                    inWaker, pollFn, chuteFn, pwTaken, 
                                    nextPoll, ppItem, pjLive, ppStage, h, dead, 
                                    sti, smax, rq, sq, sj, ww, rsq, bown, bwk, 
                                    bi, bcur, bw, bsp, jq, jj, jwk, fj, dq, dj, 
                                    oq, oop, omode, oj, yq, yop, yclaimed, tq, 
                                    top, af, wf, wop, sf, sctx, xf, cop, kj, 
                                    pp, pwk, np, nbp, nres, dp, nq >>

dq_setwaker(self) == /\ pc[self] = "dq_setwaker"
                     /\ fwaker' = [fwaker EXCEPT ![pf[self]] = pctx[self]]
                     /\ pc' = [pc EXCEPT ![self] = "dq_waitpoll"]
                     /\ UNCHANGED << qstate, qpoll, jobs, wakeBlocked, 
                                     schedule, pthreads, nspawned, palive, 
                                     busy, busyLocked, inbox, chanOpen, pfin, 
                                     thrHeld, maxThreads, jkind, jaw, fres, 
                                     gfired, gwaker, gthreads, gwhist, dwSt, 
                                     dwW, dblTaken, dblW1, dblW2, nextDW, 
                                     ready, cwait, cnotif, cvHeld, sdres, 
                                     jpanic, sfst, slotSt, qrSent, qrWaker, 
                                     dnState, susDropped, dnWaker, parkTok, 
                                     barGen, myBar, cdone, rv, rwb, rneed, 
                                     stres, spName, dsl, atomic, strong, 
                                     ppPending, ppClosed, ppNotify, ppNC, ppBP, 
                                     ppDepth, ppAlive, ppHeld, inItems, 
                                     inClosed, inWaker, pollFn, chuteFn, 
                                     pwTaken, nextPoll, ppItem, pjLive, 
                                     ppStage, h, stack, dead, sti, smax, rq, 
                                     sq, sj, ww, rsq, bown, bwk, bi, bcur, bw, 
                                     bsp, jq, jj, jwk, fj, dq, dj, oq, oop, 
                                     omode, oj, yq, yop, yclaimed, tq, top, af, 
                                     wf, wop, sf, sctx, xf, cop, kj, pp, pwk, 
                                     np, nbp, nres, dp, pf, pctx, pq, pj, pd, 
                                     nq >>

dq_waitpoll(self) == /\ pc[self] = "dq_waitpoll"
                     /\ qstate' = [qstate EXCEPT ![pq[self]] = "WaitingForPoll"]
                     /\ qpoll' = [qpoll EXCEPT ![pq[self]] = pf[self]]
                     /\ pc' = [pc EXCEPT ![self] = "dq_ww2"]
                     /\ UNCHANGED << jobs, wakeBlocked, schedule, pthreads, 
                                     nspawned, palive, busy, busyLocked, inbox, 
                                     chanOpen, pfin, thrHeld, maxThreads, 
                                     jkind, jaw, fres, fwaker, gfired, gwaker, 
                                     gthreads, gwhist, dwSt, dwW, dblTaken, 
                                     dblW1, dblW2, nextDW, ready, cwait, 
                                     cnotif, cvHeld, sdres, jpanic, sfst, 
                                     slotSt, qrSent, qrWaker, dnState, 
                                     susDropped, dnWaker, parkTok, barGen, 
                                     myBar, cdone, rv, rwb, rneed, stres, 
                                     spName, dsl, atomic, strong, ppPending, 
                                     ppClosed, ppNotify, ppNC, ppBP, ppDepth, 
                                     ppAlive, ppHeld, inItems, inClosed, 
                                     inWaker, pollFn, chuteFn, pwTaken, 
                                     nextPoll, ppItem, pjLive, ppStage, h, 
                                     stack, dead, sti, smax, rq, sq, sj, ww, 
                                     rsq, bown, bwk, bi, bcur, bw, bsp, jq, jj, 
                                     jwk, fj, dq, dj, oq, oop, omode, oj, yq, 
                                     yop, yclaimed, tq, top, af, wf, wop, sf, 
                                     sctx, xf, cop, kj, pp, pwk, np, nbp, nres, 
                                     dp, pf, pctx, pq, pj, pd, nq >>

dq_ww2(self) == /\ pc[self] = "dq_ww2"
                /\ dblW1' = [dblW1 EXCEPT ![pd[self]] = WQ(pq[self])]
                /\ dblW2' = [dblW2 EXCEPT ![pd[self]] = pctx[self]]
                /\ IF dwSt[pd[self]] = "Woken"
                      THEN /\ /\ stack' = [stack EXCEPT ![self] = << [ procedure |->  "Wake",
                                                                       pc        |->  "z_dq_pending",
                                                                       ww        |->  ww[self] ] >>
                                                                   \o stack[self]]
                              /\ ww' = [ww EXCEPT ![self] = DBL(pd[self])]
                           /\ pc' = [pc EXCEPT ![self] = "wk_lock"]
                           /\ UNCHANGED << dwSt, dwW >>
                      ELSE /\ dwSt' = [dwSt EXCEPT ![pd[self]] = "Will"]
                           /\ dwW' = [dwW EXCEPT ![pd[self]] = DBL(pd[self])]
                           /\ pc' = [pc EXCEPT ![self] = "z_dq_pending"]
                           /\ UNCHANGED << stack, ww >>
                /\ UNCHANGED << qstate, qpoll, jobs, wakeBlocked, schedule, 
                                pthreads, nspawned, palive, busy, busyLocked, 
                                inbox, chanOpen, pfin, thrHeld, maxThreads, 
                                jkind, jaw, fres, fwaker, gfired, gwaker, 
                                gthreads, gwhist, dblTaken, nextDW, ready, 
                                cwait, cnotif, cvHeld, sdres, jpanic, sfst, 
                                slotSt, qrSent, qrWaker, dnState, susDropped, 
                                dnWaker, parkTok, barGen, myBar, cdone, rv, 
                                rwb, rneed, stres, spName, dsl, atomic, strong, 
                                ppPending, ppClosed, ppNotify, ppNC, ppBP, 
                                ppDepth, ppAlive, ppHeld, inItems, inClosed, 
                                inWaker, pollFn, chuteFn, pwTaken, nextPoll, 
                                ppItem, pjLive, ppStage, h, dead, sti, smax, 
                                rq, sq, sj, rsq, bown, bwk, bi, bcur, bw, bsp, 
                                jq, jj, jwk, fj, dq, dj, oq, oop, omode, oj, 
                                yq, yop, yclaimed, tq, top, af, wf, wop, sf, 
                                sctx, xf, cop, kj, pp, pwk, np, nbp, nres, dp, 
                                pf, pctx, pq, pj, pd, nq >>

z_dq_pending(self) == /\ pc[self] = "z_dq_pending"
                      /\ rv' = [rv EXCEPT ![self] = 5]
                      /\ pc' = [pc EXCEPT ![self] = Head(stack[self]).pc]
                      /\ pq' = [pq EXCEPT ![self] = Head(stack[self]).pq]
                      /\ pj' = [pj EXCEPT ![self] = Head(stack[self]).pj]
                      /\ pd' = [pd EXCEPT ![self] = Head(stack[self]).pd]
                      /\ pf' = [pf EXCEPT ![self] = Head(stack[self]).pf]
                      /\ pctx' = [pctx EXCEPT ![self] = Head(stack[self]).pctx]
                      /\ stack' = [stack EXCEPT ![self] = Tail(stack[self])]
                      /\ UNCHANGED << qstate, qpoll, jobs, wakeBlocked, 
                                      schedule, pthreads, nspawned, palive, 
                                      busy, busyLocked, inbox, chanOpen, pfin, 
                                      thrHeld, maxThreads, jkind, jaw, fres, 
                                      fwaker, gfired, gwaker, gthreads, gwhist, 
                                      dwSt, dwW, dblTaken, dblW1, dblW2, 
                                      nextDW, ready, cwait, cnotif, cvHeld, 
                                      sdres, jpanic, sfst, slotSt, qrSent, 
                                      qrWaker, dnState, susDropped, dnWaker, 
                                      parkTok, barGen, myBar, cdone, rwb, 
                                      rneed, stres, spName, dsl, atomic, 
                                      strong, ppPending, ppClosed, ppNotify, 
                                      ppNC, ppBP, ppDepth, ppAlive, ppHeld, 
                                      inItems, inClosed, inWaker, pollFn, 
                                      chuteFn, pwTaken, nextPoll, ppItem, 
                                      pjLive, ppStage, h, dead, sti, smax, rq, 
                                      sq, sj, ww, rsq, bown, bwk, bi, bcur, bw, 
                                      bsp, jq, jj, jwk, fj, dq, dj, oq, oop, 
                                      omode, oj, yq, yop, yclaimed, tq, top, 
                                      af, wf, wop, sf, sctx, xf, cop, kj, pp, 
                                      pwk, np, nbp, nres, dp, nq >>

dq_empty_w(self) == /\ pc[self] = "dq_empty_w"
                    /\ fwaker' = [fwaker EXCEPT ![pf[self]] = pctx[self]]
                    /\ pc' = [pc EXCEPT ![self] = "dq_empty_idle"]
                    /\ UNCHANGED << qstate, qpoll, jobs, wakeBlocked, schedule, 
                                    pthreads, nspawned, palive, busy, 
                                    busyLocked, inbox, chanOpen, pfin, thrHeld, 
                                    maxThreads, jkind, jaw, fres, gfired, 
                                    gwaker, gthreads, gwhist, dwSt, dwW, 
                                    dblTaken, dblW1, dblW2, nextDW, ready, 
                                    cwait, cnotif, cvHeld, sdres, jpanic, sfst, 
                                    slotSt, qrSent, qrWaker, dnState, 
                                    susDropped, dnWaker, parkTok, barGen, 
                                    myBar, cdone, rv, rwb, rneed, stres, 
                                    spName, dsl, atomic, strong, ppPending, 
                                    ppClosed, ppNotify, ppNC, ppBP, ppDepth, 
                                    ppAlive, ppHeld, inItems, inClosed, 
                                    inWaker, pollFn, chuteFn, pwTaken, 
                                    nextPoll, ppItem, pjLive, ppStage, h, 
                                    stack, dead, sti, smax, rq, sq, sj, ww, 
                                    rsq, bown, bwk, bi, bcur, bw, bsp, jq, jj, 
                                    jwk, fj, dq, dj, oq, oop, omode, oj, yq, 
                                    yop, yclaimed, tq, top, af, wf, wop, sf, 
                                    sctx, xf, cop, kj, pp, pwk, np, nbp, nres, 
                                    dp, pf, pctx, pq, pj, pd, nq >>

dq_empty_idle(self) == /\ pc[self] = "dq_empty_idle"
                       /\ qstate' = [qstate EXCEPT ![pq[self]] = "Idle"]
                       /\ /\ rq' = [rq EXCEPT ![self] = pq[self]]
                          /\ stack' = [stack EXCEPT ![self] = << [ procedure |->  "Reschedule",
                                                                   pc        |->  "z_dq_pending",
                                                                   rq        |->  rq[self] ] >>
                                                               \o stack[self]]
                       /\ pc' = [pc EXCEPT ![self] = "rq_core"]
                       /\ UNCHANGED << qpoll, jobs, wakeBlocked, schedule, 
                                       pthreads, nspawned, palive, busy, 
                                       busyLocked, inbox, chanOpen, pfin, 
                                       thrHeld, maxThreads, jkind, jaw, fres, 
                                       fwaker, gfired, gwaker, gthreads, 
                                       gwhist, dwSt, dwW, dblTaken, dblW1, 
                                       dblW2, nextDW, ready, cwait, cnotif, 
                                       cvHeld, sdres, jpanic, sfst, slotSt, 
                                       qrSent, qrWaker, dnState, susDropped, 
                                       dnWaker, parkTok, barGen, myBar, cdone, 
                                       rv, rwb, rneed, stres, spName, dsl, 
                                       atomic, strong, ppPending, ppClosed, 
                                       ppNotify, ppNC, ppBP, ppDepth, ppAlive, 
                                       ppHeld, inItems, inClosed, inWaker, 
                                       pollFn, chuteFn, pwTaken, nextPoll, 
                                       ppItem, pjLive, ppStage, h, dead, sti, 
                                       smax, sq, sj, ww, rsq, bown, bwk, bi, 
                                       bcur, bw, bsp, jq, jj, jwk, fj, dq, dj, 
                                       oq, oop, omode, oj, yq, yop, yclaimed, 
                                       tq, top, af, wf, wop, sf, sctx, xf, cop, 
                                       kj, pp, pwk, np, nbp, nres, dp, pf, 
                                       pctx, pq, pj, pd, nq >>

dq_idle(self) == /\ pc[self] = "dq_idle"
                 /\ qstate' = [qstate EXCEPT ![pq[self]] = "Idle"]
                 /\ /\ rq' = [rq EXCEPT ![self] = pq[self]]
                    /\ stack' = [stack EXCEPT ![self] = << [ procedure |->  "Reschedule",
                                                             pc        |->  "z_dq_ready",
                                                             rq        |->  rq[self] ] >>
                                                         \o stack[self]]
                 /\ pc' = [pc EXCEPT ![self] = "rq_core"]
                 /\ UNCHANGED << qpoll, jobs, wakeBlocked, schedule, pthreads, 
                                 nspawned, palive, busy, busyLocked, inbox, 
                                 chanOpen, pfin, thrHeld, maxThreads, jkind, 
                                 jaw, fres, fwaker, gfired, gwaker, gthreads, 
                                 gwhist, dwSt, dwW, dblTaken, dblW1, dblW2, 
                                 nextDW, ready, cwait, cnotif, cvHeld, sdres, 
                                 jpanic, sfst, slotSt, qrSent, qrWaker, 
                                 dnState, susDropped, dnWaker, parkTok, barGen, 
                                 myBar, cdone, rv, rwb, rneed, stres, spName, 
                                 dsl, atomic, strong, ppPending, ppClosed, 
                                 ppNotify, ppNC, ppBP, ppDepth, ppAlive, 
                                 ppHeld, inItems, inClosed, inWaker, pollFn, 
                                 chuteFn, pwTaken, nextPoll, ppItem, pjLive, 
                                 ppStage, h, dead, sti, smax, sq, sj, ww, rsq, 
                                 bown, bwk, bi, bcur, bw, bsp, jq, jj, jwk, fj, 
                                 dq, dj, oq, oop, omode, oj, yq, yop, yclaimed, 
                                 tq, top, af, wf, wop, sf, sctx, xf, cop, kj, 
                                 pp, pwk, np, nbp, nres, dp, pf, pctx, pq, pj, 
                                 pd, nq >>

dq_panic(self) == /\ pc[self] = "dq_panic"
                  /\ qstate' = [qstate EXCEPT ![pq[self]] = "Panicked"]
                  /\ rv' = [rv EXCEPT ![self] = 2]
                  /\ pc' = [pc EXCEPT ![self] = Head(stack[self]).pc]
                  /\ pq' = [pq EXCEPT ![self] = Head(stack[self]).pq]
                  /\ pj' = [pj EXCEPT ![self] = Head(stack[self]).pj]
                  /\ pd' = [pd EXCEPT ![self] = Head(stack[self]).pd]
                  /\ pf' = [pf EXCEPT ![self] = Head(stack[self]).pf]
                  /\ pctx' = [pctx EXCEPT ![self] = Head(stack[self]).pctx]
                  /\ stack' = [stack EXCEPT ![self] = Tail(stack[self])]
                  /\ UNCHANGED << qpoll, jobs, wakeBlocked, schedule, pthreads, 
                                  nspawned, palive, busy, busyLocked, inbox, 
                                  chanOpen, pfin, thrHeld, maxThreads, jkind, 
                                  jaw, fres, fwaker, gfired, gwaker, gthreads, 
                                  gwhist, dwSt, dwW, dblTaken, dblW1, dblW2, 
                                  nextDW, ready, cwait, cnotif, cvHeld, sdres, 
                                  jpanic, sfst, slotSt, qrSent, qrWaker, 
                                  dnState, susDropped, dnWaker, parkTok, 
                                  barGen, myBar, cdone, rwb, rneed, stres, 
                                  spName, dsl, atomic, strong, ppPending, 
                                  ppClosed, ppNotify, ppNC, ppBP, ppDepth, 
                                  ppAlive, ppHeld, inItems, inClosed, inWaker, 
                                  pollFn, chuteFn, pwTaken, nextPoll, ppItem, 
                                  pjLive, ppStage, h, dead, sti, smax, rq, sq, 
                                  sj, ww, rsq, bown, bwk, bi, bcur, bw, bsp, 
                                  jq, jj, jwk, fj, dq, dj, oq, oop, omode, oj, 
                                  yq, yop, yclaimed, tq, top, af, wf, wop, sf, 
                                  sctx, xf, cop, kj, pp, pwk, np, nbp, nres, 
                                  dp, nq >>

PollFuture(self) == pf_decide(self) \/ dq_res(self) \/ dq_deq(self)
                       \/ z_dq_after(self) \/ dq_requeue(self)
                       \/ dq_res2(self) \/ dq_waitwake(self)
                       \/ dq_ww1(self) \/ z_dq_ready(self)
                       \/ dq_setwaker(self) \/ dq_waitpoll(self)
                       \/ dq_ww2(self) \/ z_dq_pending(self)
                       \/ dq_empty_w(self) \/ dq_empty_idle(self)
                       \/ dq_idle(self) \/ dq_panic(self)

c_start(self) == /\ pc[self] = "c_start"
                 /\ /\ bown' = [bown EXCEPT ![self] = 0]
                    /\ bwk' = [bwk EXCEPT ![self] = NoW]
                    /\ rsq' = [rsq EXCEPT ![self] = Prog[self]]
                    /\ stack' = [stack EXCEPT ![self] = << [ procedure |->  "RunOps",
                                                             pc        |->  "z_c_exit",
                                                             bi        |->  bi[self],
                                                             bcur      |->  bcur[self],
                                                             bw        |->  bw[self],
                                                             bsp       |->  bsp[self],
                                                             rsq       |->  rsq[self],
                                                             bown      |->  bown[self],
                                                             bwk       |->  bwk[self] ] >>
                                                         \o stack[self]]
                 /\ bi' = [bi EXCEPT ![self] = 0]
                 /\ bcur' = [bcur EXCEPT ![self] = 0]
                 /\ bw' = [bw EXCEPT ![self] = NoW]
                 /\ bsp' = [bsp EXCEPT ![self] = << >>]
                 /\ pc' = [pc EXCEPT ![self] = "rb_step"]
                 /\ UNCHANGED << qstate, qpoll, jobs, wakeBlocked, schedule, 
                                 pthreads, nspawned, palive, busy, busyLocked, 
                                 inbox, chanOpen, pfin, thrHeld, maxThreads, 
                                 jkind, jaw, fres, fwaker, gfired, gwaker, 
                                 gthreads, gwhist, dwSt, dwW, dblTaken, dblW1, 
                                 dblW2, nextDW, ready, cwait, cnotif, cvHeld, 
                                 sdres, jpanic, sfst, slotSt, qrSent, qrWaker, 
                                 dnState, susDropped, dnWaker, parkTok, barGen, 
                                 myBar, cdone, rv, rwb, rneed, stres, spName, 
                                 dsl, atomic, strong, ppPending, ppClosed, 
                                 ppNotify, ppNC, ppBP, ppDepth, ppAlive, 
                                 ppHeld, inItems, inClosed, inWaker, pollFn, 
                                 chuteFn, pwTaken, nextPoll, ppItem, pjLive, 
                                 ppStage, h, dead, sti, smax, rq, sq, sj, ww, 
                                 jq, jj, jwk, fj, dq, dj, oq, oop, omode, oj, 
                                 yq, yop, yclaimed, tq, top, af, wf, wop, sf, 
                                 sctx, xf, cop, kj, pp, pwk, np, nbp, nres, dp, 
                                 pf, pctx, pq, pj, pd, nq >>

z_c_exit(self) == /\ pc[self] = "z_c_exit"
                  /\ h' = ObsExit(h, self, 0, 0)
                  /\ cdone' = [cdone EXCEPT ![self] = TRUE]
                  /\ pc' = [pc EXCEPT ![self] = "Done"]
                  /\ UNCHANGED << qstate, qpoll, jobs, wakeBlocked, schedule, 
                                  pthreads, nspawned, palive, busy, busyLocked, 
                                  inbox, chanOpen, pfin, thrHeld, maxThreads, 
                                  jkind, jaw, fres, fwaker, gfired, gwaker, 
                                  gthreads, gwhist, dwSt, dwW, dblTaken, dblW1, 
                                  dblW2, nextDW, ready, cwait, cnotif, cvHeld, 
                                  sdres, jpanic, sfst, slotSt, qrSent, qrWaker, 
                                  dnState, susDropped, dnWaker, parkTok, 
                                  barGen, myBar, rv, rwb, rneed, stres, spName, 
                                  dsl, atomic, strong, ppPending, ppClosed, 
                                  ppNotify, ppNC, ppBP, ppDepth, ppAlive, 
                                  ppHeld, inItems, inClosed, inWaker, pollFn, 
                                  chuteFn, pwTaken, nextPoll, ppItem, pjLive, 
                                  ppStage, stack, dead, sti, smax, rq, sq, sj, 
                                  ww, rsq, bown, bwk, bi, bcur, bw, bsp, jq, 
                                  jj, jwk, fj, dq, dj, oq, oop, omode, oj, yq, 
                                  yop, yclaimed, tq, top, af, wf, wop, sf, 
                                  sctx, xf, cop, kj, pp, pwk, np, nbp, nres, 
                                  dp, pf, pctx, pq, pj, pd, nq >>

caller(self) == c_start(self) \/ z_c_exit(self)

pt_recv(self) == /\ pc[self] = "pt_recv"
                 /\ palive[self] /\ (inbox[self] > 0 \/ ~chanOpen[self])
                 /\ IF inbox[self] > 0
                       THEN /\ inbox' = [inbox EXCEPT ![self] = inbox[self] - 1]
                            /\ pc' = [pc EXCEPT ![self] = "pt_next"]
                            /\ UNCHANGED << pfin, h >>
                       ELSE /\ pfin' = [pfin EXCEPT ![self] = TRUE]
                            /\ h' = ObsExit(h, self, 1, 0)
                            /\ pc' = [pc EXCEPT ![self] = "z_pt_done"]
                            /\ inbox' = inbox
                 /\ UNCHANGED << qstate, qpoll, jobs, wakeBlocked, schedule, 
                                 pthreads, nspawned, palive, busy, busyLocked, 
                                 chanOpen, thrHeld, maxThreads, jkind, jaw, 
                                 fres, fwaker, gfired, gwaker, gthreads, 
                                 gwhist, dwSt, dwW, dblTaken, dblW1, dblW2, 
                                 nextDW, ready, cwait, cnotif, cvHeld, sdres, 
                                 jpanic, sfst, slotSt, qrSent, qrWaker, 
                                 dnState, susDropped, dnWaker, parkTok, barGen, 
                                 myBar, cdone, rv, rwb, rneed, stres, spName, 
                                 dsl, atomic, strong, ppPending, ppClosed, 
                                 ppNotify, ppNC, ppBP, ppDepth, ppAlive, 
                                 ppHeld, inItems, inClosed, inWaker, pollFn, 
                                 chuteFn, pwTaken, nextPoll, ppItem, pjLive, 
                                 ppStage, stack, dead, sti, smax, rq, sq, sj, 
                                 ww, rsq, bown, bwk, bi, bcur, bw, bsp, jq, jj, 
                                 jwk, fj, dq, dj, oq, oop, omode, oj, yq, yop, 
                                 yclaimed, tq, top, af, wf, wop, sf, sctx, xf, 
                                 cop, kj, pp, pwk, np, nbp, nres, dp, pf, pctx, 
                                 pq, pj, pd, nq >>

pt_next(self) == /\ pc[self] = "pt_next"
                 /\ LET r == NTR(schedule) IN
                      /\ busyLocked' = [busyLocked EXCEPT ![self] = TRUE]
                      /\ schedule' = r.rest
                      /\ nq' = [nq EXCEPT ![self] = r.found]
                      /\ IF r.found # 0
                            THEN /\ qstate' = [qstate EXCEPT ![r.found] = "Running"]
                                 /\ qpoll' = [qpoll EXCEPT ![r.found] = 0]
                            ELSE /\ TRUE
                                 /\ UNCHANGED << qstate, qpoll >>
                 /\ pc' = [pc EXCEPT ![self] = "pt_after"]
                 /\ UNCHANGED << jobs, wakeBlocked, pthreads, nspawned, palive, 
                                 busy, inbox, chanOpen, pfin, thrHeld, 
                                 maxThreads, jkind, jaw, fres, fwaker, gfired, 
                                 gwaker, gthreads, gwhist, dwSt, dwW, dblTaken, 
                                 dblW1, dblW2, nextDW, ready, cwait, cnotif, 
                                 cvHeld, sdres, jpanic, sfst, slotSt, qrSent, 
                                 qrWaker, dnState, susDropped, dnWaker, 
                                 parkTok, barGen, myBar, cdone, rv, rwb, rneed, 
                                 stres, spName, dsl, atomic, strong, ppPending, 
                                 ppClosed, ppNotify, ppNC, ppBP, ppDepth, 
                                 ppAlive, ppHeld, inItems, inClosed, inWaker, 
                                 pollFn, chuteFn, pwTaken, nextPoll, ppItem, 
                                 pjLive, ppStage, h, stack, dead, sti, smax, 
                                 rq, sq, sj, ww, rsq, bown, bwk, bi, bcur, bw, 
                                 bsp, jq, jj, jwk, fj, dq, dj, oq, oop, omode, 
                                 oj, yq, yop, yclaimed, tq, top, af, wf, wop, 
                                 sf, sctx, xf, cop, kj, pp, pwk, np, nbp, nres, 
                                 dp, pf, pctx, pq, pj, pd >>

pt_after(self) == /\ pc[self] = "pt_after"
                  /\ busyLocked' = [busyLocked EXCEPT ![self] = FALSE]
                  /\ IF nq[self] = 0
                        THEN /\ busy' = [busy EXCEPT ![self] = FALSE]
                             /\ pc' = [pc EXCEPT ![self] = "pt_recv"]
                             /\ UNCHANGED << stack, dq, dj >>
                        ELSE /\ /\ dq' = [dq EXCEPT ![self] = nq[self]]
                                /\ stack' = [stack EXCEPT ![self] = << [ procedure |->  "PoolDrain",
                                                                         pc        |->  "z_pt_chk",
                                                                         dj        |->  dj[self],
                                                                         dq        |->  dq[self] ] >>
                                                                     \o stack[self]]
                             /\ dj' = [dj EXCEPT ![self] = 0]
                             /\ pc' = [pc EXCEPT ![self] = "pd_deq"]
                             /\ busy' = busy
                  /\ UNCHANGED << qstate, qpoll, jobs, wakeBlocked, schedule, 
                                  pthreads, nspawned, palive, inbox, chanOpen, 
                                  pfin, thrHeld, maxThreads, jkind, jaw, fres, 
                                  fwaker, gfired, gwaker, gthreads, gwhist, 
                                  dwSt, dwW, dblTaken, dblW1, dblW2, nextDW, 
                                  ready, cwait, cnotif, cvHeld, sdres, jpanic, 
                                  sfst, slotSt, qrSent, qrWaker, dnState, 
                                  susDropped, dnWaker, parkTok, barGen, myBar, 
                                  cdone, rv, rwb, rneed, stres, spName, dsl, 
                                  atomic, strong, ppPending, ppClosed, 
                                  ppNotify, ppNC, ppBP, ppDepth, ppAlive, 
                                  ppHeld, inItems, inClosed, inWaker, pollFn, 
                                  chuteFn, pwTaken, nextPoll, ppItem, pjLive, 
                                  ppStage, h, dead, sti, smax, rq, sq, sj, ww, 
                                  rsq, bown, bwk, bi, bcur, bw, bsp, jq, jj, 
                                  jwk, fj, oq, oop, omode, oj, yq, yop, 
                                  yclaimed, tq, top, af, wf, wop, sf, sctx, xf, 
                                  cop, kj, pp, pwk, np, nbp, nres, dp, pf, 
                                  pctx, pq, pj, pd, nq >>

z_pt_chk(self) == /\ pc[self] = "z_pt_chk"
                  /\ IF rv[self] = 9
                        THEN /\ pfin' = [pfin EXCEPT ![self] = TRUE]
                             /\ h' = ObsExit(h, self, 1, 1)
                             /\ pc' = [pc EXCEPT ![self] = "z_pt_done"]
                        ELSE /\ pc' = [pc EXCEPT ![self] = "pt_next"]
                             /\ UNCHANGED << pfin, h >>
                  /\ UNCHANGED << qstate, qpoll, jobs, wakeBlocked, schedule, 
                                  pthreads, nspawned, palive, busy, busyLocked, 
                                  inbox, chanOpen, thrHeld, maxThreads, jkind, 
                                  jaw, fres, fwaker, gfired, gwaker, gthreads, 
                                  gwhist, dwSt, dwW, dblTaken, dblW1, dblW2, 
                                  nextDW, ready, cwait, cnotif, cvHeld, sdres, 
                                  jpanic, sfst, slotSt, qrSent, qrWaker, 
                                  dnState, susDropped, dnWaker, parkTok, 
                                  barGen, myBar, cdone, rv, rwb, rneed, stres, 
                                  spName, dsl, atomic, strong, ppPending, 
                                  ppClosed, ppNotify, ppNC, ppBP, ppDepth, 
                                  ppAlive, ppHeld, inItems, inClosed, inWaker, 
                                  pollFn, chuteFn, pwTaken, nextPoll, ppItem, 
                                  pjLive, ppStage, stack, dead, sti, smax, rq, 
                                  sq, sj, ww, rsq, bown, bwk, bi, bcur, bw, 
                                  bsp, jq, jj, jwk, fj, dq, dj, oq, oop, omode, 
                                  oj, yq, yop, yclaimed, tq, top, af, wf, wop, 
                                  sf, sctx, xf, cop, kj, pp, pwk, np, nbp, 
                                  nres, dp, pf, pctx, pq, pj, pd, nq >>

z_pt_done(self) == /\ pc[self] = "z_pt_done"
                   /\ TRUE
                   /\ pc' = [pc EXCEPT ![self] = "Done"]
                   /\ UNCHANGED << qstate, qpoll, jobs, wakeBlocked, schedule, 
                                   pthreads, nspawned, palive, busy, 
                                   busyLocked, inbox, chanOpen, pfin, thrHeld, 
                                   maxThreads, jkind, jaw, fres, fwaker, 
                                   gfired, gwaker, gthreads, gwhist, dwSt, dwW, 
                                   dblTaken, dblW1, dblW2, nextDW, ready, 
                                   cwait, cnotif, cvHeld, sdres, jpanic, sfst, 
                                   slotSt, qrSent, qrWaker, dnState, 
                                   susDropped, dnWaker, parkTok, barGen, myBar, 
                                   cdone, rv, rwb, rneed, stres, spName, dsl, 
                                   atomic, strong, ppPending, ppClosed, 
                                   ppNotify, ppNC, ppBP, ppDepth, ppAlive, 
                                   ppHeld, inItems, inClosed, inWaker, pollFn, 
                                   chuteFn, pwTaken, nextPoll, ppItem, pjLive, 
                                   ppStage, h, stack, dead, sti, smax, rq, sq, 
                                   sj, ww, rsq, bown, bwk, bi, bcur, bw, bsp, 
                                   jq, jj, jwk, fj, dq, dj, oq, oop, omode, oj, 
                                   yq, yop, yclaimed, tq, top, af, wf, wop, sf, 
                                   sctx, xf, cop, kj, pp, pwk, np, nbp, nres, 
                                   dp, pf, pctx, pq, pj, pd, nq >>

pool(self) == pt_recv(self) \/ pt_next(self) \/ pt_after(self)
                 \/ z_pt_chk(self) \/ z_pt_done(self)

(* Allow infinite stuttering to prevent deadlock on termination. *)
Terminating == /\ \A self \in ProcSet: pc[self] = "Done"
               /\ UNCHANGED vars

Next == (\E self \in ProcSet:  \/ ScheduleThread(self) \/ Reschedule(self)
                               \/ ScheduleJob(self) \/ Wake(self)
                               \/ RunOps(self) \/ RunJob(self)
                               \/ FinishJob(self) \/ PoolDrain(self)
                               \/ RunOne(self) \/ Sync(self)
                               \/ TrySync(self) \/ Await(self)
                               \/ WaitSync(self) \/ PollSync(self)
                               \/ DropFuture(self) \/ PipeCreate(self)
                               \/ PipePoll(self) \/ PipeNext(self)
                               \/ PipeDrop(self) \/ Despawn(self)
                               \/ PollFuture(self))
           \/ (\E self \in Threads: caller(self))
           \/ (\E self \in PoolSet: pool(self))
           \/ Terminating

Spec == Init /\ [][Next]_vars

Termination == <>(\A self \in ProcSet: pc[self] = "Done")

\* END TRANSLATION
====
