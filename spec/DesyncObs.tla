----------------------------- MODULE DesyncObs -----------------------------
(***************************************************************************)
(* Observable vocabulary of desync and the property monitors C01..C17.     *)
(*                                                                         *)
(* Everything here is a pure operator over a history record `h`.  The      *)
(* implementation-shaped model (DesyncImpl) carries `h` as a ghost         *)
(* variable and applies these operators at the corresponding steps; the    *)
(* trace monitor (ObsTrace) applies the very same operators to the         *)
(* observable events recorded from the real crate.  A property is violated *)
(* exactly when its tag enters h.viol, so each property has one definition *)
(* that judges both the model and the implementation.                      *)
(***************************************************************************)
EXTENDS Integers, Sequences, FiniteSets, TLC

CONSTANTS OpTab,      \* op id -> [k, o, g, aw, body, panic, block, f, then, n, t, par]
          NObj,       \* number of Desync objects
          NGate,      \* number of external events
          Pool0,      \* configured pool maximum at the start of the run
          NPipe       \* number of pipes

Ops   == DOMAIN OpTab
Objs  == 1..NObj
Gates == 1..NGate
Pipes == 1..NPipe

K(op) == OpTab[op].k
O(op) == OpTab[op].o
\* the calling thread is unwinding from a panic while it makes this call (Drop for Desync then uses sync_no_panic)
Unw(op) == OpTab[op].then = "unwinding"

\* Operations that run user code with exclusive access to an object
ClosureKinds == {"desync", "sync", "try_sync", "fdesync", "fsync", "after"}
\* Calls that take a place in an object's order
OrderedKinds == ClosureKinds \cup {"suspend", "drop_obj"}
IsClosureOp(op) == K(op) \in ClosureKinds
IsOrdered(op)   == K(op) \in OrderedKinds

NoRet == 9
\* Result codes of a call: 0 ok, 1 busy, 2 panicked, 3 wrong value, 4 cancelled, 5 pending (single poll)
InitH == [ called   |-> {},                       \* ops whose call was invoked
           rets     |-> [op \in Ops |-> NoRet],  \* result code of returned calls (NoRet = not returned)
           scnt     |-> [op \in Ops |-> 0],      \* number of times the closure / user future was invoked
           ended    |-> {},                       \* ops whose closure returned / future completed or was dropped
           cancel   |-> {},                       \* future_sync ops dropped before they started
           act      |-> [o \in Objs |-> {}],      \* ops currently executing on each object
           before   |-> [op \in Ops |-> {}],     \* accepted ops on the same object that had returned when op was called
           cstack   |-> << >>,                    \* thread -> sequence of open calls (function with growing domain)
           fired    |-> {},
           res      |-> [op \in Ops |-> 0],      \* how often the future of op resolved
           freed    |-> [o \in Objs |-> 0],
           live     |-> 0,                        \* pool threads spawned and not yet exited
           maxNow   |-> Pool0,
           minMax   |-> Pool0,
           extra    |-> 0,                        \* pool threads added by explicit spawn_thread calls since the last despawn
           lowering |-> FALSE,                    \* maximum lowered below the live count, despawn not yet returned
           panicked |-> {},                       \* ops whose closure panicked
           atRisk   |-> {},                       \* objects with unfinished work at the moment a panic finished unwinding (outside C15's "afterwards")
           panicOn  |-> {},                       \* <<op, thread>>: where the panic is unwinding
           pdone    |-> {},                       \* objects whose panic has finished unwinding
           loud     |-> {},                       \* calls issued on an object after its panic finished unwinding
           polled   |-> {},                       \* future ops that have been polled/awaited at least once
           susp     |-> [o \in Objs |-> 0],       \* 0 = not suspended, else the suspend op whose future resolved and was not yet resumed
           resumed  |-> {},                       \* suspend ops resumed / resumer dropped
           psent    |-> [p \in Pipes |-> << >>],  \* items supplied to the input stream of each pipe
           pproc    |-> [p \in Pipes |-> 0],      \* items whose processing started / ended
           pfin     |-> [p \in Pipes |-> 0],
           pout     |-> [p \in Pipes |-> 0],      \* outputs received by the consumer
           pflags   |-> [p \in Pipes |-> {}],     \* "in_closed", "in_end", "in_dropped", "closure_dropped", "stream_dropped", "out_end", "late_event"
           pneed    |-> [op \in Ops |-> [p \in Pipes |-> 0]], \* per call: items of each pipe_in on its object that had been handed over when it was made
           tsRest   |-> {},                       \* open try_sync calls made on an object at rest on which no other call has been made since
           viol     |-> {} ]

Viol(h, cond, tag) == IF cond THEN [h EXCEPT !.viol = @ \cup {tag}] ELSE h

StackOf(h, t) == IF t \in DOMAIN h.cstack THEN h.cstack[t] ELSE << >>
SetStack(h, t, s) == [h EXCEPT !.cstack = [x \in (DOMAIN h.cstack) \cup {t} |-> IF x = t THEN s ELSE h.cstack[x]]]

Accepted(h, a) == h.rets[a] = 0
Finished(h, a) == a \in h.ended \/ a \in h.cancel \/ (K(a) = "suspend" /\ a \in h.resumed)

\* objects that have unfinished work right now
Unfinished(h) == {O(a) : a \in {x \in h.called : IsClosureOp(x) /\ ~Finished(h, x) /\ h.rets[x] \in {0, NoRet}}}

\* pipe() keeps a strong reference to its Desync until the output stream has been dropped and the pipe has shut down
\* (pipe_in only ever holds a temporary strong reference, while one of its wake-ups is scheduling a poll: the drop of the
\* harness's reference is then not the drop of the last owner; that the value is freed in the end is checked at quiescence)
HeldByPipe(h, o) == \E op \in Ops : K(op) \in {"pipe", "pipe_in"} /\ O(op) = o /\ op \in h.called

PipeOp(p) == CHOOSE op \in Ops : K(op) \in {"pipe", "pipe_in"} /\ OpTab[op].p = p
PKind(p) == K(PipeOp(p))
PObj(p)  == O(PipeOp(p))
\* items of pipe_in p whose send call has returned
SentAndReturned(h, p) == Cardinality({s \in Ops : K(s) = "send" /\ OpTab[s].p = p /\ h.rets[s] = 0})

(***************************************************************************)
(* call / ret of an API call by thread t                                   *)
(***************************************************************************)
ObsCall(h, t, op) ==
  LET h1 == [h EXCEPT !.called = @ \cup {op},
                      !.tsRest = IF IsOrdered(op) THEN {b \in @ : O(b) # O(op)} ELSE @,
                      !.before[op] = IF IsOrdered(op)
                                      THEN {a \in Ops : a # op /\ IsOrdered(a) /\ K(a) # "drop_obj" /\ O(a) = O(op) /\ Accepted(h, a)}
                                      ELSE {},
                      !.loud = IF IsOrdered(op) /\ K(op) # "drop_obj" /\ O(op) \in h.pdone THEN @ \cup {op} ELSE @,
                      !.pneed[op] = [p \in Pipes |-> IF IsClosureOp(op) /\ PKind(p) = "pipe_in" /\ PObj(p) = O(op) THEN SentAndReturned(h, p) ELSE 0]]
      h2 == SetStack(h1, t, Append(StackOf(h, t), op))
      h3 == IF K(op) \in {"await", "poll", "wait_sync"} THEN [h2 EXCEPT !.polled = @ \cup {OpTab[op].f}]
            ELSE IF K(op) \in {"fdesync", "fsync", "after", "suspend"} /\ OpTab[op].then \in {"await", "sync"} THEN [h2 EXCEPT !.polled = @ \cup {op}]
            ELSE h2
  IN  h3

\* C09: "once an object has no operation queued or in progress try_sync succeeds". An object is at rest when its queue is idle and
\* empty (`idle`: the queue as it is at the moment of the call), every call made on it has returned, everything accepted has finished,
\* it is not suspended, has not panicked and feeds no pipe. A try_sync called then, with no other call on the object until it
\* returns, has nothing to be Busy about (wake-ups of stale wakers are not operations).
AtRest(h, o, b) == /\ ~HeldByPipe(h, o)
                   /\ h.susp[o] = 0
                   /\ h.freed[o] = 0
                   /\ ~(\E a \in h.panicked : O(a) = o)
                   /\ \A a \in h.called \ {b} : (IsOrdered(a) /\ O(a) = o) =>
                          \/ h.rets[a] \notin {0, NoRet}                                                \* refused (Busy, panicked)
                          \/ Finished(h, a) /\ (h.rets[a] # NoRet \/ K(a) \in {"fdesync", "fsync", "after", "suspend"})
ObsTryRest(h, op, idle) == IF K(op) = "try_sync" /\ idle /\ AtRest(h, O(op), op) THEN [h EXCEPT !.tsRest = @ \cup {op}] ELSE h

ObsRet(h, t, op, c) ==
  LET st == StackOf(h, t)
      h0 == Viol([h EXCEPT !.tsRest = @ \ {op}], K(op) = "try_sync" /\ c = 1 /\ op \in h.tsRest, "C09:busy-at-rest")
      h1 == SetStack([h0 EXCEPT !.rets[op] = c], t, IF Len(st) > 0 THEN SubSeq(st, 1, Len(st) - 1) ELSE st)
      \* C04: sync ran its closure exactly once, inside the call, and returned its value
      h2 == Viol(h1, K(op) = "sync" /\ c = 0 /\ ~(h.scnt[op] = 1 /\ op \in h.ended), "C04:sync-ran-once")
      h3 == Viol(h2, K(op) = "sync" /\ c = 3, "C04:value")
      \* C09: try_sync is all or nothing
      h4 == Viol(h3, K(op) = "try_sync" /\ c = 0 /\ ~(h.scnt[op] = 1 /\ op \in h.ended), "C09:ok-ran-once")
      h5 == Viol(h4, K(op) = "try_sync" /\ c = 1 /\ h.scnt[op] # 0, "C09:busy-ran")
      h6 == Viol(h5, K(op) = "try_sync" /\ c = 3, "C09:value")
      \* C15: a call on a panicked object fails loudly, without running anything
      h7 == Viol(h6, op \in h.loud /\ ~(c = 2 /\ h.scnt[op] = 0), "C15:not-loud")
      \* C15: a call fails with a panic only if an operation of its own object panicked (its own closure included); operations whose
      \* closure makes calls of its own are left out (a nested call on a panicked object panics the closure around it)
      h7b == Viol(h7, c = 2 /\ IsOrdered(op) /\ ~OpTab[op].panic /\ OpTab[op].body = << >>
                      /\ ~(\E a \in h.panicked : O(a) = O(op)) /\ ~(\E a \in Ops : O(a) = O(op) /\ OpTab[a].body # << >>), "C15:healthy-poisoned")
      \* a caller that observed the panic of its own closure: the panic has finished unwinding
      h8 == IF c = 2 /\ (\E x \in h.panicOn : x[2] = t)
            THEN [h7b EXCEPT !.pdone = @ \cup {O(a[1]) : a \in {x \in h.panicOn : x[2] = t}}, !.atRisk = @ \cup Unfinished(h)]
            ELSE h7b
      \* C17: after despawn returned the pool is within its maximum
      h9 == IF K(op) = "despawn" THEN Viol([h8 EXCEPT !.lowering = FALSE, !.extra = 0], h8.live > h8.maxNow, "C17:despawn") ELSE h8
      \* C05: drop returned => the value was freed exactly once
      \* (an owner dropped by an unwinding thread leaves a panicked object alone: the value leaks rather than panicking again)
      h10 == Viol(h9, K(op) = "drop_obj" /\ c = 0 /\ h.freed[O(op)] # 1 /\ ~HeldByPipe(h, O(op))
                      /\ ~(Unw(op) /\ \E x \in h.panicOn : O(x[1]) = O(op)), "C05:drop-returned-unfreed")
  IN  h10

(***************************************************************************)
(* closure (or user future) of op invoked / finished by thread t           *)
(***************************************************************************)
ObsStart(h, t, op) ==
  LET o  == O(op)
      \* futures that this operation's own future awaits (nested awaits) count as awaited from now on
      h1 == [h EXCEPT !.scnt[op] = IF @ < 2 THEN @ + 1 ELSE @, !.act[o] = @ \cup {op},
                      !.polled = @ \cup {0 - OpTab[op].aw[i] : i \in {j \in 1..Len(OpTab[op].aw) : OpTab[op].aw[j] < 0}}]
      h2 == Viol(h1, h.act[o] # {}, "C01:overlap")
      h3 == Viol(h2, ~(\A a \in h.before[op] : Finished(h, a)), "C02:order")
      h4 == Viol(h3, h.scnt[op] >= 1, "C03:ran-twice")
      h5 == Viol(h4, K(op) \in {"sync", "try_sync"} /\ (op \notin h.called \/ h.rets[op] # NoRet), "C14:closure-outside-call")
      h6 == Viol(h5, h.freed[o] > 0, "C05:use-after-free")
      h7 == Viol(h6, K(op) = "try_sync" /\ h.rets[op] = 1, "C09:busy-ran")
      h8 == Viol(h7, K(op) = "fsync" /\ op \notin h.polled, "C08:started-unawaited")
      h9 == Viol(h8, op \in h.cancel, "C08:started-after-drop")
      \* C13: nothing scheduled after the suspension starts while the queue is suspended
      h11 == Viol(h9, h.susp[o] # 0 /\ op \notin h.before[h.susp[o]], "C13:ran-while-suspended")
      h12 == Viol(h11, op \in h.loud, "C15:ran-on-panicked")
      \* C11: an item handed to the input stream before this operation was scheduled is processed before it (the wake-up queues the poll at once)
      h13 == Viol(h12, \E p \in Pipes : h.pproc[p] < h.pneed[op][p], "C11:overtaken")
  IN  h13

ObsEnd(h, t, op) ==
  LET o  == O(op)
      h1 == [h EXCEPT !.ended = @ \cup {op}, !.act[o] = @ \ {op}]
      h2 == Viol(h1, h.freed[o] > 0, "C05:use-after-free")
      h3 == Viol(h2, K(op) \in {"sync", "try_sync"} /\ h.rets[op] # NoRet, "C14:closure-outside-call")
  IN  h2

ObsPanic(h, t, op) == [h EXCEPT !.panicked = @ \cup {op}, !.panicOn = @ \cup {<<op, t>>}, !.act[O(op)] = @ \ {op}]

\* A future_sync future (or any stored future) was dropped by its owner
ObsDropped(h, t, f) ==
  IF K(f) = "fsync" /\ h.scnt[f] = 0 THEN [h EXCEPT !.cancel = @ \cup {f}]
  \* dropping the future of suspend() gives up the resumer: the queue is to be resumed (as if the resumer had been dropped)
  ELSE IF K(f) = "suspend" /\ h.res[f] = 0 THEN [h EXCEPT !.resumed = @ \cup {f}]
  ELSE h

ObsFire(h, g) == [h EXCEPT !.fired = @ \cup {g}]

\* The owner of the future of op f obtained its value with result code c
ObsResolved(h, t, f, c) ==
  LET h1 == [h EXCEPT !.res[f] = IF @ < 2 THEN @ + 1 ELSE @]
      tag == IF K(f) = "fsync" THEN "C08" ELSE IF K(f) = "suspend" THEN "C13" ELSE "C07"
      h2 == Viol(h1, h.res[f] >= 1, "C07:resolved-twice")
      h3 == Viol(h2, c = 3, IF tag = "C08" THEN "C08:value" ELSE "C07:value")
      h4 == Viol(h3, c = 0 /\ K(f) \in {"fdesync", "after", "fsync"} /\ f \notin h.ended, IF tag = "C08" THEN "C08:resolved-before-end" ELSE "C07:resolved-before-end")
      h5 == Viol(h4, c = 4 /\ f \notin h.panicked /\ O(f) \notin h.pdone /\ (\A a \in h.panicked : O(a) # O(f)), IF tag = "C08" THEN "C08:cancelled" ELSE IF tag = "C13" THEN "C13:cancelled" ELSE "C07:cancelled")
      \* C13: when the suspend future resolves, everything scheduled before the suspend request has completed
      h6 == IF K(f) = "suspend" /\ c = 0
            THEN Viol([h5 EXCEPT !.susp[O(f)] = f], ~(\A a \in h.before[f] : Finished(h, a)), "C13:resolved-early")
            ELSE h5
  IN  h6

ObsResume(h, t, s) == [h EXCEPT !.susp[O(s)] = 0, !.resumed = @ \cup {s}]

ObsFreed(h, o) ==
  LET h1 == [h EXCEPT !.freed[o] = IF @ < 2 THEN @ + 1 ELSE @]
      h2 == Viol(h1, h.freed[o] >= 1, "C05:freed-twice")
      h3 == Viol(h2, h.act[o] # {}, "C05:freed-while-active")
      drops == {d \in Ops : K(d) = "drop_obj" /\ O(d) = o /\ d \in h.called}
      h4 == Viol(h3, \E d \in drops : ~(\A a \in h.before[d] : Finished(h, a) \/ a \in h.panicked), "C05:freed-before-work-done")
  IN  h4

\* pool thread spawned / exited (p = 1 for pool threads), maximum changed
\* (a thread added by an explicit Scheduler::spawn_thread call is not "scheduling work": such threads are counted apart until the next despawn)
ObsSpawn(h, t, p) ==
  LET st == StackOf(h, t)
      explicit == Len(st) > 0 /\ K(st[Len(st)]) = "spawn_thread"
  IN  IF p # 1 THEN h
      ELSE IF explicit THEN [h EXCEPT !.live = @ + 1, !.extra = @ + 1]
      ELSE Viol([h EXCEPT !.live = @ + 1], ~h.lowering /\ h.live + 1 - h.extra > h.maxNow, "C17:exceeds-maximum")

ObsExit(h, t, p, panicking) ==
  LET h1 == IF p = 1 THEN [h EXCEPT !.live = IF @ > 0 THEN @ - 1 ELSE 0] ELSE h
      \* the unwinding thread is finished: the objects whose operation panicked on it are now 'panicked objects'
      h2 == IF panicking = 1 THEN [h1 EXCEPT !.pdone = @ \cup {O(a[1]) : a \in {x \in h.panicOn : x[2] = t}}, !.atRisk = @ \cup Unfinished(h)] ELSE h1
  IN  h2

ObsSetMax(h, n) == [h EXCEPT !.maxNow = n, !.minMax = IF n < @ THEN n ELSE @, !.lowering = (h.lowering \/ n < h.live)]

\* thread t entered a blocking primitive (condition wait, park, join)
ObsBlocked(h, t) ==
  LET st == StackOf(h, t)
  IN  Viol(h, Len(st) > 0 /\ K(st[Len(st)]) = "try_sync", "C09:blocked")

(***************************************************************************)
(* Pipes                                                                   *)
(***************************************************************************)
PTag(p, what) == IF PKind(p) = "pipe_in" THEN "C11:" \o what ELSE "C12:" \o what
PseudoOp(p) == 1000 + p
PFlag(h, p, f) == [h EXCEPT !.pflags[p] = @ \cup {f}]

ObsSent(h, p, item) == LET h1 == [h EXCEPT !.psent[p] = Append(@, item)] IN
                       IF h.freed[PObj(p)] > 0 THEN PFlag(h1, p, "late_event") ELSE h1
ObsInClosed(h, p) == IF h.freed[PObj(p)] > 0 THEN PFlag(PFlag(h, p, "in_closed"), p, "late_event") ELSE PFlag(h, p, "in_closed")

ObsProcStart(h, t, p, item) ==
  LET o  == PObj(p)
      n  == h.pproc[p] + 1
      h1 == [h EXCEPT !.pproc[p] = n, !.act[o] = @ \cup {PseudoOp(p)}]
      h2 == Viol(h1, ~(n <= Len(h.psent[p]) /\ h.psent[p][n] = item), PTag(p, "item-order"))
      h3 == Viol(h2, h.act[o] # {}, "C01:overlap")
      h4 == Viol(h3, h.act[o] # {}, PTag(p, "overlap"))
      h5 == Viol(h4, h.freed[o] > 0, "C05:use-after-free")
      h6 == Viol(h5, "stream_dropped" \in h.pflags[p] /\ "closure_dropped" \in h.pflags[p], "C16:processed-after-close")
  IN  h6

ObsProcEnd(h, t, p, item) == [h EXCEPT !.pfin[p] = @ + 1, !.act[PObj(p)] = @ \ {PseudoOp(p)}]

ObsOut(h, p, val) ==
  LET n  == h.pout[p] + 1
      h1 == [h EXCEPT !.pout[p] = n]
      h2 == Viol(h1, ~(n <= Len(h.psent[p]) /\ val = 10 * h.psent[p][n] /\ n <= h.pfin[p]), "C12:output-order")
      h3 == Viol(h2, "out_end" \in h.pflags[p], "C12:output-after-end")
  IN  h3

ObsOutEnd(h, p) ==
  Viol(PFlag(h, p, "out_end"), ~("in_end" \in h.pflags[p] /\ h.pout[p] = Len(h.psent[p])), "C12:early-end")

(***************************************************************************)
(* Obligations when all threads have gone quiet.                           *)
(*  qs[o] = <<state, queued jobs>> of object o's queue (from the model's   *)
(*  variables, or from the crate's Debug output in a recorded trace)        *)
(***************************************************************************)
\* An object is legitimately stuck if one of its accepted operations cannot finish for an external reason
GateOf(a) == OpTab[a].aw
WaitsUnfired(h, a) == (\E i \in 1..Len(GateOf(a)) : GateOf(a)[i] > 0 /\ GateOf(a)[i] \notin h.fired) \/ (OpTab[a].block # 0 /\ OpTab[a].block \notin h.fired) \/ (K(a) = "after" /\ OpTab[a].g \notin h.fired)
UnresumedSusp(h, o) == \E s \in Ops : K(s) = "suspend" /\ O(s) = o /\ s \in h.called /\ s \notin h.resumed
Stuck0(h, o) == \/ \E a \in Ops : O(a) = o /\ a \in h.called /\ a \notin h.ended /\ WaitsUnfired(h, a)
                \/ UnresumedSusp(h, o)
                \/ \E a \in h.panicked : O(a) = o
                \/ \E a \in Ops : O(a) = o /\ K(a) = "fsync" /\ a \in h.called /\ a \notin h.cancel /\ a \notin h.ended /\ a \notin h.polled
\* Operations whose closure is inside a call (a nested sync, a drop) on a stuck object: they cannot finish either, their thread is occupied
\* for ever and their own object waits with them (found by a generated program: D(b)[S(a)] with a waiting for an event that is never fired)
NestedStuck(h) == {a \in Ops : h.scnt[a] > 0 /\ a \notin h.ended /\ \E b \in h.called : OpTab[b].par = a /\ h.rets[b] = NoRet /\ Stuck0(h, O(b))}
StuckObj(h, o) == Stuck0(h, o) \/ \E a \in NestedStuck(h) : O(a) = o
\* Body steps are executed on behalf of their parent: if the parent's object is stuck or the parent never ran, so is the child
\* Threads occupied for ever by operations that block their thread on an unfired gate
Blockers(h) == {a \in Ops : OpTab[a].block # 0 /\ OpTab[a].block \notin h.fired /\ h.scnt[a] > 0 /\ a \notin h.ended} \cup NestedStuck(h)
PoolAvailable(h) == h.minMax >= 1 /\ Cardinality(Blockers(h)) < h.minMax /\ h.panicked = {}

ObsQuiescent(h, qs, single) ==
  LET notDone(a) == a \in h.called /\ Accepted(h, a) /\ IsClosureOp(a) /\ ~Finished(h, a)
      \* C03: with a pool thread available, every accepted operation has completed and nothing is left queued or running
      h1 == Viol(h, PoolAvailable(h) /\ \E a \in Ops : notDone(a) /\ ~StuckObj(h, O(a)) /\ K(a) # "fsync", "C03:stranded")
      h2 == Viol(h1, PoolAvailable(h) /\ \E o \in Objs : ~StuckObj(h, o) /\ h.freed[o] = 0 /\ qs[o] # <<"Idle", 0>>, "C03:queue-not-idle")
      \* C04: no sync caller is left blocked (no proviso on the pool: the caller runs the queue itself)
      h3 == Viol(h2, \E a \in Ops : K(a) \in {"sync", "drop_obj"} /\ a \in h.called /\ h.rets[a] = NoRet /\ ~StuckObj(h, O(a))
                                    /\ (OpTab[a].par = 0 \/ ~StuckObj(h, O(OpTab[a].par))) /\ h.panicked = {}, "C04:sync-blocked")
      \* C05: in particular the drop of the last owner returns
      h3b == Viol(h3, \E a \in Ops : K(a) = "drop_obj" /\ a \in h.called /\ h.rets[a] = NoRet /\ ~StuckObj(h, O(a))
                                     /\ (OpTab[a].par = 0 \/ ~StuckObj(h, O(OpTab[a].par))) /\ h.panicked = {}, "C05:drop-blocked")
      \* C07/C08/C13: an awaited future has resolved (pool thread available, or no pool and a single context)
      awaited(f) == f \in h.polled /\ \E w \in Ops : w \in h.called /\ h.rets[w] = NoRet /\
                        ((K(w) \in {"await", "wait_sync"} /\ OpTab[w].f = f) \/ (w = f /\ OpTab[w].then \in {"await", "sync"}))
      h4 == Viol(h3b, (PoolAvailable(h) \/ single) /\ h.panicked = {} /\ \E f \in Ops : awaited(f) /\ h.res[f] = 0 /\ ~StuckObj(h, O(f)),
                 "C07:await-stuck")
      \* pipes
      pstuck(p) == StuckObj(h, PObj(p)) \/ (OpTab[PipeOp(p)].g # 0 /\ OpTab[PipeOp(p)].g \notin h.fired /\ h.pproc[p] > h.pfin[p])
      alive(p) == h.freed[PObj(p)] = 0 /\ ~(\E d \in Ops : K(d) = "drop_obj" /\ O(d) = PObj(p) /\ d \in h.called)
      created(p) == h.rets[PipeOp(p)] = 0
      reading(p) == \E w \in Ops : K(w) = "next" /\ OpTab[w].p = p /\ w \in h.called /\ h.rets[w] = NoRet
      closedOut(p) == "stream_dropped" \in h.pflags[p]
      released(p) == {"in_dropped", "closure_dropped"} \subseteq h.pflags[p]
      \* C11: every item the stream yielded is processed; the pipe stops (releasing stream and closure) when the stream ends,
      \* or at the first stream event after the Desync has gone
      hp1 == Viol(h4, \E p \in Pipes : created(p) /\ PKind(p) = "pipe_in" /\ PoolAvailable(h) /\ alive(p) /\ ~pstuck(p)
                                        /\ h.pfin[p] < Len(h.psent[p]), "C11:items-unprocessed")
      hp2 == Viol(hp1, \E p \in Pipes : created(p) /\ PKind(p) = "pipe_in" /\ PoolAvailable(h) /\ ~pstuck(p)
                                        /\ (("in_closed" \in h.pflags[p] /\ alive(p)) \/ "late_event" \in h.pflags[p]) /\ ~released(p), "C11:not-released")
      \* C11: pipe_in holds only a weak reference: once the owner's drop has returned the value is destroyed
      hp2b == Viol(hp2, \E p \in Pipes : created(p) /\ PKind(p) = "pipe_in" /\ h.freed[PObj(p)] = 0
                                         /\ (\E d \in Ops : K(d) = "drop_obj" /\ O(d) = PObj(p) /\ h.rets[d] = 0)
                                         /\ ~(\E q \in Pipes : PKind(q) = "pipe" /\ PObj(q) = PObj(p) /\ h.rets[PipeOp(q)] = 0), "C11:kept-alive")
      \* C12: a reading consumer is never left waiting while an input is unprocessed/undelivered or the input has ended
      hp3 == Viol(hp2b, \E p \in Pipes : created(p) /\ PKind(p) = "pipe" /\ PoolAvailable(h) /\ ~pstuck(p) /\ ~closedOut(p) /\ reading(p)
                                        /\ (h.pout[p] < Len(h.psent[p]) \/ "in_closed" \in h.pflags[p]), "C12:consumer-stuck")
      \* C16: once the output stream has been dropped the pipe shuts down without any further input
      hp4 == Viol(hp3, \E p \in Pipes : created(p) /\ PKind(p) = "pipe" /\ PoolAvailable(h) /\ ~pstuck(p) /\ closedOut(p) /\ ~released(p), "C16:not-released")
      hp5 == Viol(hp4, \E p \in Pipes : created(p) /\ PKind(p) = "pipe" /\ PoolAvailable(h) /\ ~pstuck(p) /\ closedOut(p)
                                        /\ (\E d \in Ops : K(d) = "drop_obj" /\ O(d) = PObj(p) /\ h.rets[d] = 0) /\ h.freed[PObj(p)] = 0, "C16:desync-not-released")
      \* C15: objects without a panicked operation stay usable and the pool keeps its capacity
      healthy(o) == ~\E a \in h.panicked : O(a) = o
      h5 == Viol(hp5, h.panicked # {} /\ h.minMax >= 1 /\ Cardinality(Blockers(h)) < h.minMax
                     /\ \E a \in Ops : notDone(a) /\ healthy(O(a)) /\ O(a) \notin h.atRisk /\ ~StuckObj(h, O(a)) /\ K(a) # "fsync", "C15:healthy-stranded")
      \* C15: a call on a panicked object must fail loudly, not block for ever
      h6 == Viol(h5, \E a \in h.loud : h.rets[a] = NoRet, "C15:not-loud")
      \* C10 (and C09's "never blocks"): a scheduling call that does not wait for its operation (desync, try_sync, a future-returning call
      \* whose future is not awaited on the spot) always returns: nothing another object is doing - a blocked job, a thread being
      \* despawned - may hold it up. (try_sync runs its closure inside the call: left out when that closure blocks or makes calls.)
      h7 == Viol(h6, h.panicked = {} /\ \E a \in h.called : h.rets[a] = NoRet
                       /\ \/ K(a) = "desync"
                          \/ K(a) = "try_sync" /\ OpTab[a].block = 0 /\ OpTab[a].body = << >>
                          \/ K(a) \in {"fdesync", "fsync", "after", "suspend"} /\ OpTab[a].then \notin {"await", "sync"}, "C10:call-blocked")
  IN  h7

=============================================================================
